"""Undo "extract method": a private helper that is referenced exactly once in the whole tree, by a statement-level call from the same
class (`self._h(a, b)`) or the same module (`_h(a, b)`), is put back into its only caller and dropped from the function tables.

This is an exact program transformation (no approximation) under the conditions checked here:
  * the helper is private (leading underscore, no dunder), undecorated, a plain `def`, without *args/**kwargs, yield, global/nonlocal,
    nested definitions or `super()`;
  * it is referenced once in all analysed sources (so nothing else calls, overrides-and-calls, stores or getattr()s it) and no other class
    defines a method of that name (no override can be selected by dynamic dispatch);
  * its `return`s sit only in plain statement sequences and `if` branches (not inside a loop, try or with): they are eliminated exactly -
    `return v` becomes the call site's `x = v` / `return v` / nothing, and the statements after an `if` that can return move into its
    branches (same tests, same order of evaluation);
  * every argument is a name, an attribute chain or a constant (evaluating it where the parameter is read is the same as evaluating it
    at the call), every parameter is bound, and no parameter is re-bound in the helper;
  * helper locals that collide with names of the caller are renamed.
The inlined statements keep the helper's line numbers, so reports still point at the real source line.  On a tree without such helpers the
pass changes nothing; what was absorbed is listed in the evidence."""
from __future__ import annotations

import ast
from typing import Dict, List, Optional, Tuple

from .srcmodel import clone, set_parents


class OrdLine(int):
    """Line number of a statement that was put back into its caller: prints (and hashes) as the real source line of the helper, but orders
    as "at the call site, then by position inside the helper", so that rules comparing line numbers for program order keep working."""
    def __new__(cls, real: int, key: tuple):
        o = int.__new__(cls, int(real))
        o.key = key
        return o

    @staticmethod
    def key_of(x) -> tuple:
        return x.key if isinstance(x, OrdLine) else (int(x),)

    def __lt__(self, other):
        return self.key < OrdLine.key_of(other) if isinstance(other, int) else NotImplemented

    def __le__(self, other):
        return self.key <= OrdLine.key_of(other) if isinstance(other, int) else NotImplemented

    def __gt__(self, other):
        return self.key > OrdLine.key_of(other) if isinstance(other, int) else NotImplemented

    def __ge__(self, other):
        return self.key >= OrdLine.key_of(other) if isinstance(other, int) else NotImplemented

    __hash__ = int.__hash__


def _reorder_lines(stmts: List[ast.stmt], call_line) -> None:
    base = OrdLine.key_of(call_line)
    for s in stmts:
        for n in ast.walk(s):
            for attr in ('lineno', 'end_lineno'):
                v = getattr(n, attr, None)
                if isinstance(v, int):
                    setattr(n, attr, OrdLine(int(v), base + OrdLine.key_of(v)))


# private helpers of today's tree that rules are anchored on by name (they are analysed as functions of their own, with their own keys in
# the known-findings file); everything else that is private and used once is put back into its caller
ANCHORED_HELPERS = {
    '_parameter_with_currency_units_converted_back_to_preferred_units',     # C06 U7/U9: third sibling of the K/M prefix blocks
    '_field_label',                                                         # the report-template engine reads label fields through it
}


def _is_private(name: str) -> bool:
    return name.startswith('_') and not (name.startswith('__') and name.endswith('__')) and name not in ANCHORED_HELPERS


def _reference_counts(repo) -> Dict[str, int]:
    cnt: Dict[str, int] = {}
    for mi in repo.modules.values():
        for n in ast.walk(mi.tree):
            k = None
            if isinstance(n, ast.Attribute):
                k = n.attr
            elif isinstance(n, ast.Name):
                k = n.id
            elif isinstance(n, ast.Constant) and isinstance(n.value, str) and n.value.isidentifier():
                k = n.value
            elif isinstance(n, ast.alias):
                k = n.name.split('.')[-1]
            if k is not None and k.startswith('_'):
                cnt[k] = cnt.get(k, 0) + 1
    return cnt


def _definition_counts(repo) -> Dict[str, int]:
    cnt: Dict[str, int] = {}
    for mi in repo.modules.values():
        for n in ast.walk(mi.tree):
            if isinstance(n, (ast.FunctionDef, ast.AsyncFunctionDef)):
                cnt[n.name] = cnt.get(n.name, 0) + 1
    return cnt


def _simple_arg(e: ast.AST) -> bool:
    """A name, an attribute chain, a constant, or one subscript of such by a name or constant (`self.u.value[i]`): evaluating it where the
    parameter is read is the same as evaluating it at the call."""
    if isinstance(e, ast.Constant):
        return True
    if isinstance(e, ast.Subscript) and isinstance(e.slice, (ast.Name, ast.Constant)):
        e = e.value
    while isinstance(e, ast.Attribute):
        e = e.value
    return isinstance(e, ast.Name)


def _eligible(fn: ast.AST, is_method: bool) -> Optional[str]:
    """None if the helper can be put back; otherwise the reason it cannot."""
    if not isinstance(fn, ast.FunctionDef):
        return 'not a plain def'
    if fn.decorator_list:
        return 'decorated'
    a = fn.args
    if a.vararg or a.kwarg or a.posonlyargs:
        return 'variadic'
    if is_method and not a.args:
        return 'no self'
    body = _strip_doc(fn.body)
    if not body:
        return 'empty'
    params = {x.arg for x in a.args + a.kwonlyargs}
    for n in ast.walk(fn):
        if n is fn:
            continue
        if isinstance(n, (ast.FunctionDef, ast.AsyncFunctionDef, ast.ClassDef, ast.Yield, ast.YieldFrom, ast.Global, ast.Nonlocal,
                          ast.Await)):
            return type(n).__name__
        if isinstance(n, ast.Lambda):
            la = n.args
            if {x.arg for x in la.args + la.kwonlyargs + la.posonlyargs} & params or la.vararg or la.kwarg:
                return 'lambda shadows a parameter'
        if isinstance(n, ast.Name) and isinstance(n.ctx, (ast.Store, ast.Del)) and n.id in params:
            return f'parameter {n.id} re-bound'
        if isinstance(n, ast.Name) and n.id == 'super':
            return 'super()'
        if isinstance(n, ast.Call) and isinstance(n.func, ast.Name) and n.func.id in ('locals', 'vars', 'eval', 'exec'):
            return n.func.id
    if _eliminate_returns(body, lambda v, like: ast.copy_location(ast.Pass(), like)) is None:
        return 'a return inside a loop / try / with'
    return None


def _eliminate_returns(stmts: List[ast.stmt], mk) -> Optional[List[ast.stmt]]:
    """The statement list with every `return v` replaced by mk(v, return_node) and the statements that follow an `if` that can return
    moved into its branches (exact: same tests, same order of evaluation).  None if a return sits inside a loop, try or with."""
    out: List[ast.stmt] = []
    for i, s in enumerate(stmts):
        if isinstance(s, ast.Return):
            out.append(mk(s.value, s))
            return out
        if not any(isinstance(n, ast.Return) for n in ast.walk(s)):
            out.append(s)
            continue
        if not isinstance(s, ast.If):
            return None
        rest = stmts[i + 1:]
        b = _eliminate_returns(list(s.body) + [clone(x) for x in rest], mk)
        o = _eliminate_returns(list(s.orelse) + [clone(x) for x in rest], mk)
        if b is None or o is None:
            return None
        new = ast.copy_location(ast.If(test=s.test, body=b or [ast.copy_location(ast.Pass(), s)], orelse=o), s)
        out.append(new)
        return out
    like = stmts[-1] if stmts else None
    tail = mk(None, like) if like is not None else None
    if tail is not None and not isinstance(tail, ast.Pass):
        out.append(tail)
    return out


def _strip_doc(body: List[ast.stmt]) -> List[ast.stmt]:
    if body and isinstance(body[0], ast.Expr) and isinstance(body[0].value, ast.Constant) and isinstance(body[0].value.value, str):
        return body[1:]
    return body


def _bind(fn: ast.FunctionDef, call: ast.Call, is_method: bool) -> Optional[Dict[str, ast.AST]]:
    a = fn.args
    pos = a.args[1:] if is_method else a.args
    if any(isinstance(x, ast.Starred) for x in call.args) or any(k.arg is None for k in call.keywords) or len(call.args) > len(pos):
        return None
    m: Dict[str, ast.AST] = {}
    for p, v in zip(pos, call.args):
        m[p.arg] = v
    names = [p.arg for p in pos] + [p.arg for p in a.kwonlyargs]
    for k in call.keywords:
        if k.arg not in names or k.arg in m:
            return None
        m[k.arg] = k.value
    ndef = len(a.defaults)
    for i, p in enumerate(pos):
        if p.arg not in m:
            j = i - (len(pos) - ndef)
            if j < 0:
                return None
            m[p.arg] = a.defaults[j]
    for p, d in zip(a.kwonlyargs, a.kw_defaults):
        if p.arg not in m:
            if d is None:
                return None
            m[p.arg] = d
    if not all(_simple_arg(v) for v in m.values()):
        return None
    return m


class _Subst(ast.NodeTransformer):
    def __init__(self, params: Dict[str, ast.AST], rename: Dict[str, str]):
        self.params, self.rename = params, rename

    def visit_Name(self, n: ast.Name):
        if n.id in self.params and isinstance(n.ctx, ast.Load):
            v = self.params[n.id]
            if isinstance(v, ast.Name) and v.id == n.id:
                return n
            new = clone(v)
            for x in ast.walk(new):        # the substituted argument takes the position of the use it replaces
                for attr in ('lineno', 'col_offset', 'end_lineno', 'end_col_offset'):
                    if hasattr(n, attr):
                        setattr(x, attr, getattr(n, attr))
            return new
        if n.id in self.rename:
            n.id = self.rename[n.id]
        return n


def _names(node: ast.AST) -> set:
    return {n.id for n in ast.walk(node) if isinstance(n, ast.Name)}


def _inline_at(caller: ast.AST, stmt: ast.stmt, call: ast.Call, helper: ast.FunctionDef, is_method: bool, recv: str) -> Optional[List[ast.stmt]]:
    params = _bind(helper, call, is_method)
    if params is None:
        return None
    if is_method:
        self_name = helper.args.args[0].arg
        params = dict(params)
        params[self_name] = ast.Name(id=recv, ctx=ast.Load())
    body = _strip_doc(helper.body)
    locals_h = {n.id for s in body for n in ast.walk(s) if isinstance(n, ast.Name) and isinstance(n.ctx, ast.Store)}
    # names the substituted arguments read must not be re-bound by the helper body either
    for v in params.values():
        if _names(v) & locals_h:
            return None
    # ... and an attribute chain passed as argument must not be re-bound (it or a prefix of it) by the helper body
    stored = {ast.unparse(n) for s in body for n in ast.walk(s) if isinstance(n, ast.Attribute) and isinstance(n.ctx, (ast.Store, ast.Del))}
    for k, v in params.items():
        if isinstance(v, ast.Attribute):
            txt = ast.unparse(v)
            if any(txt == t or txt.startswith(t + '.') for t in stored):
                return None
    cargs = caller.args.args + caller.args.kwonlyargs if hasattr(caller, 'args') else []
    clash = locals_h & (_names(caller) | {x.arg for x in cargs})
    rename = {k: f'{k}__{helper.name.strip("_")}' for k in clash}
    new_body = [_Subst(params, rename).visit(clone(s)) for s in body]
    def is_none(v):
        return v is None or (isinstance(v, ast.Constant) and v.value is None)

    direct = getattr(stmt, 'value', None) is call and not isinstance(stmt, (ast.AugAssign, ast.AnnAssign))
    if not direct:
        if not _first_evaluated(stmt, call):
            return None
        if _straight_line(helper):
            ret = new_body[-1].value
            pre = new_body[:-1]
        else:
            # general helper: its value goes through a fresh temporary that is computed right before the statement
            tmp = f'{helper.name.strip("_")}__value'
            if tmp in _names(caller):
                return None

            def mk_tmp(v, like):
                return ast.copy_location(ast.Assign(targets=[ast.Name(id=tmp, ctx=ast.Store())],
                                                    value=v if v is not None else ast.copy_location(ast.Constant(value=None), like)), like)
            pre = _eliminate_returns(new_body, mk_tmp)
            if pre is None:
                return None
            ret = ast.Name(id=tmp, ctx=ast.Load())
        # stmt is replaced by a copy in which the call is the helper's value (the original node stays untouched)
        marker = clone(stmt)
        for a_, b_ in zip(ast.walk(stmt), ast.walk(marker)):
            if a_ is call:
                target_in_clone = b_
                break
        else:
            return None

        class R2(ast.NodeTransformer):
            def visit_Call(self, c):
                if c is target_in_clone:
                    return ast.copy_location(ret, c) if isinstance(ret, ast.Name) else ret
                return self.generic_visit(c)
        if not isinstance(ret, ast.Name):
            _reorder_lines([ret], stmt.lineno)          # the returned expression now sits in the statement at the call site
        new_stmt = R2().visit(marker)
        _reorder_lines(pre, stmt.lineno)
        return pre + [new_stmt]

    if isinstance(stmt, ast.Expr):
        def mk(v, like):        # value discarded by the caller: keep the evaluation
            return ast.copy_location(ast.Pass() if is_none(v) else ast.Expr(value=v), like)
    elif isinstance(stmt, ast.Assign):
        def mk(v, like):
            return ast.copy_location(ast.Assign(targets=[clone(t) for t in stmt.targets],
                                                value=v if v is not None else ast.copy_location(ast.Constant(value=None), like)), like)
    elif isinstance(stmt, ast.Return):
        def mk(v, like):
            return ast.copy_location(ast.Return(value=v), like)
    else:
        return None
    new_body = _eliminate_returns(new_body, mk)
    if new_body is None:
        return None
    new_body = new_body or [ast.copy_location(ast.Pass(), stmt)]
    _reorder_lines(new_body, stmt.lineno)
    return new_body


def _replace_stmt(root: ast.AST, old: ast.stmt, new: List[ast.stmt]) -> bool:
    for n in ast.walk(root):
        for fld in ('body', 'orelse', 'finalbody'):
            b = getattr(n, fld, None)
            if isinstance(b, list):
                for i, s in enumerate(b):
                    if s is old:
                        b[i:i + 1] = new
                        return True
    return False


def _call_site(fn: ast.AST, name: str, is_method: bool) -> Optional[Tuple[ast.stmt, ast.Call, str]]:
    """The statement-level call `self.name(...)` / `name(...)` in fn (as a whole statement, the value of a single-target assignment or the
    value of a return)."""
    for st in ast.walk(fn):
        call = None
        if isinstance(st, ast.Expr) and isinstance(st.value, ast.Call):
            call = st.value
        elif isinstance(st, ast.Assign) and len(st.targets) == 1 and isinstance(st.value, ast.Call):
            call = st.value
        elif isinstance(st, ast.Return) and isinstance(st.value, ast.Call):
            call = st.value
        if call is None:
            continue
        f = call.func
        if is_method and isinstance(f, ast.Attribute) and f.attr == name and isinstance(f.value, ast.Name):
            return st, call, f.value.id
        if not is_method and isinstance(f, ast.Name) and f.id == name:
            return st, call, ''
    # a call nested in the expression of a simple statement (`row += _token(line) + ', '`) or in the header of a with / if / for
    for st in ast.walk(fn):
        for hx in _header_exprs(st):
            for call in ast.walk(hx):
                if not isinstance(call, ast.Call):
                    continue
                f = call.func
                if is_method and isinstance(f, ast.Attribute) and f.attr == name and isinstance(f.value, ast.Name):
                    return st, call, f.value.id
                if not is_method and isinstance(f, ast.Name) and f.id == name:
                    return st, call, ''
    return None


def _header_exprs(st: ast.AST) -> List[ast.AST]:
    """The expressions a statement evaluates once, before anything else of it runs."""
    if isinstance(st, (ast.Expr, ast.Return)):
        return [st.value] if st.value is not None else []
    if isinstance(st, (ast.Assign, ast.AugAssign, ast.AnnAssign)):
        return [st.value] if st.value is not None else []
    if isinstance(st, ast.With):
        return [st.items[0].context_expr] if st.items else []          # later items run after the first manager was entered
    if isinstance(st, ast.If):
        return [st.test]
    if isinstance(st, ast.For):
        return [st.iter]
    return []


def _first_evaluated(stmt: ast.stmt, call: ast.Call) -> bool:
    """Nothing else with a possible side effect is evaluated in the statement's header before the call: every other call there encloses
    it (so runs after it), and the call is not inside something evaluated lazily, repeatedly or conditionally."""
    for hx in _header_exprs(stmt):
        if not any(x is call for x in ast.walk(hx)):
            continue
        for c in ast.walk(hx):
            if isinstance(c, ast.Call) and c is not call and not any(x is call for x in ast.walk(c)):
                return False
            if isinstance(c, (ast.Lambda, ast.ListComp, ast.SetComp, ast.DictComp, ast.GeneratorExp, ast.IfExp, ast.BoolOp)) \
                    and any(x is call for x in ast.walk(c)):
                return False
        # assignment targets with subscripts/attribute calls are evaluated after the value; augmented targets are read before it
        if isinstance(stmt, ast.AugAssign) and not isinstance(stmt.target, ast.Name):
            return False
        return True
    return False


def _straight_line(helper: ast.FunctionDef) -> bool:
    body = _strip_doc(helper.body)
    return bool(body) and isinstance(body[-1], ast.Return) and body[-1].value is not None and \
        all(isinstance(s, ast.Assign) and len(s.targets) == 1 and isinstance(s.targets[0], ast.Name) for s in body[:-1])


def _expression_helper(fn: ast.AST, is_method: bool) -> Optional[ast.AST]:
    """The returned expression of a private helper whose body is (docstring +) `return <expr>`, else None."""
    if not isinstance(fn, ast.FunctionDef):
        return None
    static = len(fn.decorator_list) == 1 and isinstance(fn.decorator_list[0], ast.Name) and fn.decorator_list[0].id == 'staticmethod'
    if fn.decorator_list and not static:
        return None
    a = fn.args
    if a.vararg or a.kwarg or a.posonlyargs or (is_method and not static and not a.args):
        return None
    body = [s_ for s_ in _strip_doc(fn.body) if not isinstance(s_, (ast.Import, ast.ImportFrom))]     # function-local imports bind module names only
    if len(body) != 1 or not isinstance(body[0], ast.Return) or body[0].value is None:
        return None
    params = {x.arg for x in a.args + a.kwonlyargs}
    for n in ast.walk(body[0].value):
        if isinstance(n, (ast.Yield, ast.YieldFrom, ast.Await, ast.NamedExpr)):
            return None
        if isinstance(n, ast.Lambda) and {x.arg for x in n.args.args + n.args.kwonlyargs} & params:
            return None
        if isinstance(n, ast.Name) and isinstance(n.ctx, ast.Store) and n.id in params:      # comprehension variable shadows a parameter
            return None
        if isinstance(n, ast.Name) and n.id in ('super', 'locals', 'vars', 'eval', 'exec'):
            return None
        if isinstance(n, ast.Name) and n.id == fn.name:
            return None
    return body[0].value


def inline_expression_helpers(repo) -> List[str]:
    """A private one-expression helper (`def _h(a, b): return <expr>`) is replaced by that expression at every call in its own module
    (`_h(x, y)`) or class (`self._h(x, y)`) whose arguments are names, attribute chains or constants; when no reference is left the
    definition is dropped.  Exact for such arguments (nothing with a side effect is duplicated, dropped or reordered)."""
    done: List[str] = []
    defs = _definition_counts(repo)
    for mi in repo.modules.values():
        cands: List[Tuple[str, ast.FunctionDef, bool, object]] = []
        for hname, h in mi.functions.items():
            if _is_private(hname) and defs.get(hname, 0) == 1:
                e = _expression_helper(h.node, False)
                if e is not None:
                    cands.append((hname, h.node, False, None))
        for ci in mi.classes.values():
            for hname, h in ci.methods.items():
                if _is_private(hname) and defs.get(hname, 0) == 1:
                    e = _expression_helper(h.node, True)
                    if e is not None:
                        cands.append((hname, h.node, True, ci))
        if not cands:
            continue
        touched = False
        for hname, hnode, is_method, ci in cands:
            expr = _expression_helper(hnode, is_method)
            count = [0]
            if expr is None:
                continue

            class T(ast.NodeTransformer):
                def visit_FunctionDef(self, n):
                    if n is hnode:
                        return n
                    return self.generic_visit(n)

                def visit_Call(self, c):
                    self.generic_visit(c)
                    f = c.func
                    static = bool(hnode.decorator_list)
                    hit = (is_method and isinstance(f, ast.Attribute) and f.attr == hname and isinstance(f.value, ast.Name)
                           and (f.value.id == 'self' or (static and f.value.id in ('cls', ci.name if ci else '')))) or \
                          (not is_method and isinstance(f, ast.Name) and f.id == hname)
                    if not hit:
                        return c
                    params = _bind(hnode, c, is_method and not static)
                    if params is None:
                        return c
                    if is_method and not static:
                        params = dict(params)
                        params[hnode.args.args[0].arg] = ast.Name(id='self', ctx=ast.Load())
                    new = _Subst(params, {}).visit(clone(expr))
                    for x in ast.walk(new):
                        for attr in ('lineno', 'col_offset', 'end_lineno', 'end_col_offset'):
                            if hasattr(c, attr):
                                setattr(x, attr, getattr(c, attr))
                    count[0] += 1
                    return new
            scope = ci.node if is_method else mi.tree
            T().visit(scope)
            if count[0]:
                touched = True
                left = sum(1 for m2 in repo.modules.values() for n in ast.walk(m2.tree)
                           if (isinstance(n, ast.Attribute) and n.attr == hname) or (isinstance(n, ast.Name) and n.id == hname)
                           or (isinstance(n, ast.alias) and n.name.split('.')[-1] == hname)
                           or (isinstance(n, ast.Constant) and n.value == hname))
                if left == 0:
                    if is_method:
                        del ci.methods[hname]
                        if hnode in ci.node.body:
                            ci.node.body.remove(hnode)
                    else:
                        del mi.functions[hname]
                        if hnode in mi.tree.body:
                            mi.tree.body.remove(hnode)
                done.append(f'{(ci.name + ".") if ci else mi.base + ":"}{hname} (x{count[0]}{", definition kept" if left else ""})')
        if touched:
            ast.fix_missing_locations(mi.tree)
            set_parents(mi.tree)
    return done


def inline_model_handles(repo) -> List[str]:
    """`wellbores = model.wellbores` (a local bound once to a part of the model object passed in as `model`) is that part: every read of the
    local becomes `model.wellbores`.  Exact because the parts of a Model are bound in Model.__init__ only (verified here on every run: any
    store to such an attribute outside the Model class disables the pass) and Model.read_parameters, which run before and not during any
    component function; handles inside Model's own methods, and in functions that call read_parameters on their model, are left alone."""
    done: List[str] = []
    models = [ci for lst in repo.classes.values() for ci in lst if ci.name == 'Model' and ci.module.rel.endswith('geophires_x/Model.py')]
    if len(models) != 1 or '__init__' not in models[0].methods:
        return done
    mdl = models[0]
    init = mdl.methods['__init__'].node
    me = init.args.args[0].arg if init.args.args else 'self'
    roles = {t.attr for st in ast.walk(init) if isinstance(st, (ast.Assign, ast.AnnAssign))
             for t in (st.targets if isinstance(st, ast.Assign) else [st.target])
             if isinstance(t, ast.Attribute) and isinstance(t.value, ast.Name) and t.value.id == me}
    roles -= {'logger'}
    if not roles:
        return done
    # soundness: nobody outside the Model class binds model.<part>
    model_fns = {id(m.node) for m in mdl.methods.values()}
    for mi in repo.modules.values():
        for fn in ast.walk(mi.tree):
            if not isinstance(fn, (ast.FunctionDef, ast.AsyncFunctionDef)) or id(fn) in model_fns:
                continue
            for n in ast.walk(fn):
                if isinstance(n, ast.Attribute) and isinstance(n.ctx, (ast.Store, ast.Del)) and n.attr in roles and isinstance(n.value, ast.Name) \
                        and n.value.id == 'model':
                    return done
    # attribute names that are bound on `self` in constructors and stored nowhere else in the tree (parameter objects of the model parts)
    in_ctor: set = set()
    elsewhere: set = set()
    for mi in repo.modules.values():
        for fn in ast.walk(mi.tree):
            if isinstance(fn, (ast.FunctionDef, ast.AsyncFunctionDef)):
                for n in ast.walk(fn):
                    if isinstance(n, ast.Attribute) and isinstance(n.ctx, (ast.Store, ast.Del)):
                        if fn.name == '__init__' and isinstance(n.value, ast.Name) and fn.args.args and n.value.id == fn.args.args[0].arg:
                            in_ctor.add(n.attr)
                        else:
                            elsewhere.add(n.attr)
        for n in mi.tree.body:          # module level / class level code
            for x in ast.walk(n) if not isinstance(n, (ast.FunctionDef, ast.AsyncFunctionDef, ast.ClassDef)) else []:
                if isinstance(x, ast.Attribute) and isinstance(x.ctx, (ast.Store, ast.Del)):
                    elsewhere.add(x.attr)
    ctor_only = in_ctor - elsewhere - {'value', 'CurrentUnits', 'PreferredUnits'}
    for mi in repo.modules.values():
        touched = False
        for fn in [x for x in ast.walk(mi.tree) if isinstance(x, (ast.FunctionDef, ast.AsyncFunctionDef))]:
            params = {a.arg: a for a in fn.args.args + fn.args.kwonlyargs}
            bases = {k for k, a in params.items() if k == 'model' or (a.annotation is not None and 'Model' in ast.unparse(a.annotation).split('.')[-1:])}
            if not bases or id(fn) in model_fns:
                continue
            if any(isinstance(c, ast.Call) and isinstance(c.func, ast.Attribute) and c.func.attr in ('read_parameters', '__init__')
                   and isinstance(c.func.value, ast.Name) and c.func.value.id in bases for c in ast.walk(fn)):
                continue
            stores: Dict[str, int] = {}
            for n in ast.walk(fn):
                if isinstance(n, ast.Name) and isinstance(n.ctx, (ast.Store, ast.Del)):
                    stores[n.id] = stores.get(n.id, 0) + 1
                if isinstance(n, (ast.Global, ast.Nonlocal)):
                    for nm in n.names:
                        stores[nm] = 99
            handles: Dict[str, ast.AST] = {}
            for st in ast.walk(fn):
                tgt = val = None
                if isinstance(st, ast.Assign) and len(st.targets) == 1 and isinstance(st.targets[0], ast.Name):
                    tgt, val = st.targets[0].id, st.value
                elif isinstance(st, ast.AnnAssign) and isinstance(st.target, ast.Name) and st.value is not None:
                    tgt, val = st.target.id, st.value
                if tgt is None or stores.get(tgt) != 1 or tgt in params:
                    continue
                if isinstance(val, ast.Attribute) and isinstance(val.value, ast.Name) and val.value.id in bases and val.attr in roles \
                        and stores.get(val.value.id, 0) == 0:
                    handles[tgt] = val
                # ... and to a parameter object of a part (`irr = model.economics.ProjectIRR`): such attributes are bound in constructors only
                elif isinstance(val, ast.Attribute) and isinstance(val.value, ast.Attribute) and isinstance(val.value.value, ast.Name) \
                        and val.value.value.id in bases and val.value.attr in roles and stores.get(val.value.value.id, 0) == 0 \
                        and val.attr in ctor_only:
                    handles[tgt] = val
            if not handles:
                continue

            class H(ast.NodeTransformer):
                def visit_Name(self, n):
                    if isinstance(n.ctx, ast.Load) and n.id in handles:
                        new = clone(handles[n.id])
                        for x in ast.walk(new):
                            for attr in ('lineno', 'col_offset', 'end_lineno', 'end_col_offset'):
                                if hasattr(n, attr):
                                    setattr(x, attr, getattr(n, attr))
                        return new
                    return n
            H().visit(fn)
            touched = True
            owner = next((c.name + '.' for c in mi.classes.values() if any(fn is m.node for m in c.methods.values())), '')
            done.append(f'{owner}{fn.name}: ' + ', '.join(f'{k} = {ast.unparse(v)}' for k, v in sorted(handles.items())))
        if touched:
            ast.fix_missing_locations(mi.tree)
            set_parents(mi.tree)
    return done


class _ModuleBody:
    """The top-level code of a module as a caller."""
    def __init__(self, mi):
        self.node = mi.tree
        self.qualname = f'{mi.base}:<module>'


def absorb_single_use_procedures(repo) -> List[str]:
    absorbed: List[str] = []
    for _round in range(3):
        refs = _reference_counts(repo)
        defs = _definition_counts(repo)
        changed = False
        for mi in repo.modules.values():
            before = len(absorbed)
            # methods
            for ci in list(mi.classes.values()):
                for hname, h in list(ci.methods.items()):
                    if not _is_private(hname) or refs.get(hname, 0) != 1 or defs.get(hname, 0) != 1:
                        continue
                    if _eligible(h.node, True) is not None:
                        continue
                    for cname, c in ci.methods.items():
                        if c is h:
                            continue
                        site = _call_site(c.node, hname, True)
                        if site is None:
                            continue
                        st, call, recv = site
                        if not c.node.args.args or recv != c.node.args.args[0].arg:
                            break
                        new = _inline_at(c.node, st, call, h.node, True, recv)
                        if new is None or not _replace_stmt(c.node, st, new):
                            break
                        del ci.methods[hname]
                        if h.node in ci.node.body:
                            ci.node.body.remove(h.node)
                        absorbed.append(f'{ci.name}.{hname} -> {c.qualname}')
                        changed = True
                        break
            # module-level procedures
            for hname, h in list(mi.functions.items()):
                if not _is_private(hname) or refs.get(hname, 0) != 1 or defs.get(hname, 0) != 1:
                    continue
                if _eligible(h.node, False) is not None:
                    continue
                callers = [f for f in mi.functions.values() if f is not h] + [m for ci in mi.classes.values() for m in ci.methods.values()]
                callers.append(_ModuleBody(mi))         # script-style modules (__main__) call helpers from top-level code
                for c in callers:
                    site = _call_site(c.node, hname, False)
                    if site is None:
                        continue
                    st, call, _ = site
                    # a local of the caller with the helper's name would shadow it
                    if any(isinstance(n, ast.Name) and n.id == hname and isinstance(n.ctx, ast.Store) for n in ast.walk(c.node)):
                        break
                    new = _inline_at(c.node, st, call, h.node, False, '')
                    if new is None or not _replace_stmt(c.node, st, new):
                        break
                    del mi.functions[hname]
                    if h.node in mi.tree.body:
                        mi.tree.body.remove(h.node)
                    absorbed.append(f'{mi.base}:{hname} -> {c.qualname}')
                    changed = True
                    break
            # module-level private helpers used several times, every use a statement-level call in one function of the same module
            # (`a, b = _h(self, x)` three times): all sites are written out, or none
            for hname, h in list(mi.functions.items()):
                k = refs.get(hname, 0)
                if not _is_private(hname) or k < 2 or k > 8 or defs.get(hname, 0) != 1 or _eligible(h.node, False) is not None:
                    continue
                callers = [f for f in mi.functions.values() if f is not h] + [m for ci in mi.classes.values() for m in ci.methods.values()]
                hosts = [c for c in callers if any(isinstance(n, ast.Name) and n.id == hname for n in ast.walk(c.node))]
                if len(hosts) != 1:
                    continue
                c = hosts[0]
                if any(isinstance(n, ast.Name) and n.id == hname and isinstance(n.ctx, ast.Store) for n in ast.walk(c.node)):
                    continue
                work = clone(c.node)
                set_parents(work)
                done_sites = 0
                ok = True
                for _g in range(k):
                    site = _call_site(work, hname, False)
                    if site is None:
                        break
                    st, call, _ = site
                    if getattr(st, 'value', None) is not call:
                        ok = False          # only whole-statement calls here (nested ones are left to the single-use rules)
                        break
                    new = _inline_at(work, st, call, h.node, False, '')
                    if new is None or not _replace_stmt(work, st, _split_tuple_assign(new)):
                        ok = False
                        break
                    done_sites += 1
                    set_parents(work)
                if not ok or done_sites != k or any(isinstance(n, ast.Name) and n.id == hname for n in ast.walk(work)):
                    continue
                # swap the worked copy in
                c.node.body[:] = work.body
                del mi.functions[hname]
                if h.node in mi.tree.body:
                    mi.tree.body.remove(h.node)
                absorbed.append(f'{mi.base}:{hname} (x{k}) -> {c.qualname}')
                changed = True
            if len(absorbed) > before:
                ast.fix_missing_locations(mi.tree)
                set_parents(mi.tree)
        if not changed:
            break
    return absorbed


def _split_tuple_assign(stmts: List[ast.stmt]) -> List[ast.stmt]:
    """`a, b = x, y` as `a = x; b = y` when no right-hand side reads one of the targets (then the order of binding cannot matter)."""
    out: List[ast.stmt] = []
    for st in stmts:
        if isinstance(st, ast.Assign) and len(st.targets) == 1 and isinstance(st.targets[0], ast.Tuple) and isinstance(st.value, ast.Tuple) \
                and len(st.targets[0].elts) == len(st.value.elts) and all(isinstance(t, ast.Name) for t in st.targets[0].elts):
            tn = {t.id for t in st.targets[0].elts}
            if not ({n.id for v in st.value.elts for n in ast.walk(v) if isinstance(n, ast.Name)} & tn):
                for t, v in zip(st.targets[0].elts, st.value.elts):
                    out.append(ast.copy_location(ast.Assign(targets=[t], value=v), st))
                continue
        out.append(st)
    return out
