"""E1: the resolved-program model.  Parses every src/**/*.py of the repository's working tree
(never imports or runs it) and indexes modules, classes (with MRO), functions and calls."""
from __future__ import annotations

import ast
import os
from dataclasses import dataclass, field
from typing import Dict, Iterator, List, Optional, Tuple


class AnalysisError(Exception):
    """The analysis itself cannot proceed (anchor vanished, unsupported construct, floor not met)."""


REPO_ROOT = os.environ.get('GXSTAT_REPO', '/repo')


@dataclass
class FuncInfo:
    name: str
    qualname: str            # Class.method or function
    node: ast.AST
    module: 'ModuleInfo'
    cls: Optional['ClassInfo'] = None

    @property
    def where(self) -> str:
        return f'{self.module.rel}:{self.node.lineno}'

    @property
    def args(self) -> List[str]:
        a = self.node.args
        return [x.arg for x in a.posonlyargs + a.args]


@dataclass
class ClassInfo:
    name: str
    node: ast.ClassDef
    module: 'ModuleInfo'
    base_names: List[str] = field(default_factory=list)
    methods: Dict[str, FuncInfo] = field(default_factory=dict)

    @property
    def where(self) -> str:
        return f'{self.module.rel}:{self.node.lineno}'


@dataclass
class ModuleInfo:
    rel: str                 # path relative to repo root, e.g. src/geophires_x/Economics.py
    path: str
    tree: ast.Module
    source: str
    classes: Dict[str, ClassInfo] = field(default_factory=dict)
    functions: Dict[str, FuncInfo] = field(default_factory=dict)
    imports: Dict[str, str] = field(default_factory=dict)   # local name -> dotted target

    @property
    def base(self) -> str:
        return os.path.basename(self.rel)

    @property
    def dotted(self) -> str:
        r = self.rel[len('src/'):] if self.rel.startswith('src/') else self.rel
        r = r[:-3]
        if r.endswith('/__init__'):
            r = r[:-len('/__init__')]
        return r.replace('/', '.')


def set_parents(tree: ast.AST) -> None:
    for node in ast.walk(tree):
        for ch in ast.iter_child_nodes(node):
            ch._parent = node  # type: ignore[attr-defined]


def clone(node):
    """Structural copy of an AST (fields and positions only; the _parent back-links are not followed)."""
    if isinstance(node, ast.AST):
        new = node.__class__()
        for f in node._fields:
            if hasattr(node, f):
                setattr(new, f, clone(getattr(node, f)))
        for a in ('lineno', 'col_offset', 'end_lineno', 'end_col_offset'):
            if hasattr(node, a):
                setattr(new, a, getattr(node, a))
        return new
    if isinstance(node, list):
        return [clone(x) for x in node]
    return node


def parent(node: ast.AST) -> Optional[ast.AST]:
    return getattr(node, '_parent', None)


def ancestors(node: ast.AST) -> Iterator[ast.AST]:
    p = parent(node)
    while p is not None:
        yield p
        p = parent(p)


def enclosing_function(node: ast.AST) -> Optional[ast.AST]:
    for a in ancestors(node):
        if isinstance(a, (ast.FunctionDef, ast.AsyncFunctionDef, ast.Lambda)):
            return a
    return None


def enclosing_class(node: ast.AST) -> Optional[ast.ClassDef]:
    for a in ancestors(node):
        if isinstance(a, ast.ClassDef):
            return a
    return None


def norm(node: Optional[ast.AST]) -> str:
    """Position-independent normalised text of a construct (used for keys, never for matching rules)."""
    if node is None:
        return ''
    try:
        return ' '.join(ast.unparse(node).split())
    except Exception:  # pragma: no cover
        return ast.dump(node)


def dotted_name(node: ast.AST) -> Optional[str]:
    """a.b.c -> 'a.b.c' for pure Name/Attribute chains, else None."""
    parts = []
    while isinstance(node, ast.Attribute):
        parts.append(node.attr)
        node = node.value
    if isinstance(node, ast.Name):
        parts.append(node.id)
        return '.'.join(reversed(parts))
    return None


def call_name(call: ast.Call) -> Optional[str]:
    return dotted_name(call.func)


class Repo:
    """All parsed sources of one working tree."""

    def __init__(self, root: str = None, subdirs: Tuple[str, ...] = ('src',)):
        self.root = root or REPO_ROOT
        self.modules: Dict[str, ModuleInfo] = {}
        self.classes: Dict[str, List[ClassInfo]] = {}
        self.parse_errors: List[str] = []
        for sub in subdirs:
            top = os.path.join(self.root, sub)
            if not os.path.isdir(top):
                raise AnalysisError(f'source directory missing: {top}')
            for dp, dns, fns in os.walk(top):
                dns[:] = sorted(d for d in dns if not d.endswith('.egg-info') and d != '__pycache__')
                for fn in sorted(fns):
                    if fn.endswith('.py'):
                        self._load(os.path.join(dp, fn))
        if not self.modules:
            raise AnalysisError('no python sources found under ' + self.root)
        # single-use private helpers are put back into their only caller ("extract method" undone; exact, see gxstat/absorb.py)
        from .absorb import absorb_single_use_procedures, inline_expression_helpers, inline_model_handles
        self.absorbed: List[str] = absorb_single_use_procedures(self)
        self.handles: List[str] = inline_model_handles(self)          # after the helpers are back in their callers
        self.absorbed += ['expression helper ' + x for x in inline_expression_helpers(self)]
        # returned variables of the functions rules are written against get their canonical names back (gxstat/roles.py)
        from .roles import normalise_return_names
        self.role_renamed: List[str] = normalise_return_names(self)

    # ------------------------------------------------------------------ loading
    def _load(self, path: str) -> None:
        rel = os.path.relpath(path, self.root)
        try:
            with open(path, 'r', encoding='utf-8') as f:
                src = f.read()
            tree = ast.parse(src, filename=rel)
        except (SyntaxError, UnicodeDecodeError, OSError) as e:
            self.parse_errors.append(f'{rel}: {e}')
            raise AnalysisError(f'cannot parse {rel}: {e}')
        set_parents(tree)
        # (no global canonicalisation: inlining `x = a.b.value` is only sound where nothing - including callees - re-binds a.b.value
        # between the definition and the use; rules that know this for their construct call gxstat.inline.canonical_function)
        mi = ModuleInfo(rel=rel, path=path, tree=tree, source=src)
        for st in tree.body:
            if isinstance(st, ast.ClassDef):
                self._add_class(mi, st)
            elif isinstance(st, (ast.FunctionDef, ast.AsyncFunctionDef)):
                mi.functions[st.name] = FuncInfo(st.name, st.name, st, mi)
            elif isinstance(st, ast.Import):
                for al in st.names:
                    mi.imports[al.asname or al.name.split('.')[0]] = al.name if al.asname else al.name.split('.')[0]
            elif isinstance(st, ast.ImportFrom):
                mod = ('.' * st.level) + (st.module or '')
                for al in st.names:
                    mi.imports[al.asname or al.name] = f'{mod}.{al.name}' if al.name != '*' else f'{mod}.*'
        self.modules[rel] = mi

    def _add_class(self, mi: ModuleInfo, st: ast.ClassDef) -> None:
        ci = ClassInfo(st.name, st, mi, [dotted_name(b) or norm(b) for b in st.bases])
        for s in st.body:
            if isinstance(s, (ast.FunctionDef, ast.AsyncFunctionDef)):
                ci.methods[s.name] = FuncInfo(s.name, f'{st.name}.{s.name}', s, mi, ci)
            elif isinstance(s, ast.ClassDef):   # nested class (AGSWellBores.data)
                self._add_class(mi, s)
        mi.classes[st.name] = ci
        self.classes.setdefault(st.name, []).append(ci)

    # ------------------------------------------------------------------ lookup
    def module(self, suffix: str) -> ModuleInfo:
        """Find a module by path suffix, e.g. 'geophires_x/Economics.py'."""
        hits = [m for r, m in self.modules.items() if r == suffix or r.endswith('/' + suffix)]
        if len(hits) != 1:
            raise AnalysisError(f'module anchor {suffix!r}: {len(hits)} matches')
        return hits[0]

    def has_module(self, suffix: str) -> bool:
        return any(r == suffix or r.endswith('/' + suffix) for r in self.modules)

    def cls(self, name: str, module_suffix: str = None) -> ClassInfo:
        cands = self.classes.get(name, [])
        if module_suffix:
            cands = [c for c in cands if c.module.rel.endswith(module_suffix)]
        if len(cands) != 1:
            raise AnalysisError(f'class anchor {name!r} ({module_suffix}): {len(cands)} matches')
        return cands[0]

    def find_cls(self, name: str, near: ModuleInfo = None) -> Optional[ClassInfo]:
        cands = self.classes.get(name.split('.')[-1], [])
        if not cands:
            return None
        if len(cands) == 1:
            return cands[0]
        if near is not None:
            pk = os.path.dirname(near.rel)
            same = [c for c in cands if os.path.dirname(c.module.rel) == pk]
            if len(same) == 1:
                return same[0]
        return None

    def mro(self, ci: ClassInfo) -> List[ClassInfo]:
        cache = self.__dict__.setdefault('_mro_cache', {})
        if id(ci) in cache:
            return cache[id(ci)]
        out, seen = [], set()

        def rec(c: ClassInfo):
            if id(c) in seen:
                return
            seen.add(id(c))
            out.append(c)
            for b in c.base_names:
                bc = self.find_cls(b, c.module)
                if bc is not None:
                    rec(bc)
        rec(ci)
        cache[id(ci)] = out
        return out

    def resolve_method(self, ci: ClassInfo, name: str) -> Optional[FuncInfo]:
        for c in self.mro(ci):
            if name in c.methods:
                return c.methods[name]
        return None

    def method(self, cls_name: str, meth: str, module_suffix: str = None) -> FuncInfo:
        ci = self.cls(cls_name, module_suffix)
        if meth not in ci.methods:
            raise AnalysisError(f'method anchor {cls_name}.{meth} not found in {ci.module.rel}')
        return ci.methods[meth]

    def function(self, module_suffix: str, name: str) -> FuncInfo:
        mi = self.module(module_suffix)
        if name not in mi.functions:
            raise AnalysisError(f'function anchor {module_suffix}:{name} not found')
        return mi.functions[name]

    def subclasses(self, ci: ClassInfo) -> List[ClassInfo]:
        cache = self.__dict__.setdefault('_sub_cache', {})
        if id(ci) in cache:
            return cache[id(ci)]
        out = []
        for lst in self.classes.values():
            for c in lst:
                if c is not ci and ci in self.mro(c):
                    out.append(c)
        cache[id(ci)] = out
        return out

    def all_functions(self) -> Iterator[FuncInfo]:
        for mi in self.modules.values():
            yield from mi.functions.values()
            for ci in mi.classes.values():
                yield from ci.methods.values()

    def stats(self) -> dict:
        nf = sum(1 for _ in self.all_functions())
        return {'files': len(self.modules), 'classes': sum(len(v) for v in self.classes.values()), 'functions': nf,
                'single_use_helpers_put_back_into_their_caller': list(getattr(self, 'absorbed', [])),
                'returned_variables_renamed_by_role': list(getattr(self, 'role_renamed', [])),
                'model_part_handles_inlined': list(getattr(self, 'handles', []))}


# ---------------------------------------------------------------------- generic AST helpers
def walk_no_nested(node: ast.AST) -> Iterator[ast.AST]:
    """Walk a function body without descending into nested function/class definitions."""
    stack = list(ast.iter_child_nodes(node))
    while stack:
        n = stack.pop()
        yield n
        if isinstance(n, (ast.FunctionDef, ast.AsyncFunctionDef, ast.ClassDef, ast.Lambda)):
            continue
        stack.extend(ast.iter_child_nodes(n))


def calls_in(node: ast.AST) -> List[ast.Call]:
    return sorted((n for n in ast.walk(node) if isinstance(n, ast.Call)), key=lambda c: (c.lineno, c.col_offset))


def const_value(node: ast.AST):
    """Fold literals / unary minus / simple arithmetic.  Returns (True, v) or (False, None)."""
    try:
        if isinstance(node, ast.Constant):
            return True, node.value
        if isinstance(node, ast.UnaryOp) and isinstance(node.op, (ast.USub, ast.UAdd)):
            ok, v = const_value(node.operand)
            if ok and isinstance(v, (int, float)):
                return True, (-v if isinstance(node.op, ast.USub) else v)
        if isinstance(node, ast.BinOp):
            ok1, a = const_value(node.left)
            ok2, b = const_value(node.right)
            if ok1 and ok2 and isinstance(a, (int, float)) and isinstance(b, (int, float)):
                if isinstance(node.op, ast.Add):
                    return True, a + b
                if isinstance(node.op, ast.Sub):
                    return True, a - b
                if isinstance(node.op, ast.Mult):
                    return True, a * b
                if isinstance(node.op, ast.Div) and b != 0:
                    return True, a / b
                if isinstance(node.op, ast.Pow) and abs(b) < 64:
                    return True, a ** b
        if isinstance(node, (ast.List, ast.Tuple)):
            vals = []
            for e in node.elts:
                ok, v = const_value(e)
                if not ok:
                    return False, None
                vals.append(v)
            return True, vals
    except Exception:
        pass
    return False, None
