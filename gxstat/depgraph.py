"""Flow-insensitive def-use (dependency) graph of one function, with guard-aware filtering for a configuration.

deps(target) over-approximates the set of names a target may depend on (data dependence through assignments,
control dependence through the guards of those assignments).  Statements whose guards are decidably false for a
given option assignment (enum comparisons only) are left out."""
from __future__ import annotations

import ast
from dataclasses import dataclass
from typing import Dict, List, Optional, Set, Tuple

from .enumcond import eval_enum_cond
from .flowutil import guards_of
from .srcmodel import dotted_name, norm
from .symflow import names_read, target_key


@dataclass
class DefSite:
    keys: Set[str]
    reads: Set[str]
    guard_reads: Set[str]
    guards: List[Tuple[ast.AST, bool]]
    stmt: ast.stmt


def _leaf_keys(names: Set[str]) -> Set[str]:
    """Keep the longest attribute paths only (drop the prefixes self, self.X of self.X.value)."""
    out = set()
    for n in names:
        if not any(o != n and o.startswith(n + '.') for o in names):
            out.add(n)
    return out


def def_sites(fn_node: ast.AST) -> List[DefSite]:
    sites: List[DefSite] = []
    for st in ast.walk(fn_node):
        keys: Set[str] = set()
        reads: Set[str] = set()
        if isinstance(st, ast.Assign):
            for t in st.targets:
                for e in (t.elts if isinstance(t, (ast.Tuple, ast.List)) else [t]):
                    b = e.value if isinstance(e, ast.Subscript) else e
                    k = target_key(b)
                    if k:
                        keys.add(k)
                    if isinstance(e, ast.Subscript):
                        reads |= names_read(e.slice)
            reads |= names_read(st.value)
        elif isinstance(st, ast.AugAssign):
            b = st.target.value if isinstance(st.target, ast.Subscript) else st.target
            k = target_key(b)
            if k:
                keys.add(k)
                reads.add(k)
            reads |= names_read(st.value)
        elif isinstance(st, ast.AnnAssign) and st.value is not None:
            k = target_key(st.target)
            if k:
                keys.add(k)
            reads |= names_read(st.value)
        elif isinstance(st, ast.Expr) and isinstance(st.value, ast.Call) and isinstance(st.value.func, ast.Attribute) and \
                st.value.func.attr in ('append', 'insert', 'extend'):
            k = target_key(st.value.func.value)
            if k:
                keys.add(k)
                reads.add(k)
                for a in st.value.args:
                    reads |= names_read(a)
        else:
            continue
        if not keys:
            continue
        g = guards_of(st, fn_node)
        gr: Set[str] = set()
        for t, pol in g:
            gr |= names_read(t)
        sites.append(DefSite(keys, _leaf_keys(reads), _leaf_keys(gr), g, st))
    return sites


def deps_of(fn_node: ast.AST, targets: Set[str], config: Dict[str, Tuple[str, str]] = None, control: bool = True,
            sites: List[DefSite] = None) -> Tuple[Set[str], Dict[str, DefSite]]:
    """Transitive dependency set of the targets; returns (names, witness site per name)."""
    sites = sites if sites is not None else def_sites(fn_node)
    live = []
    for s in sites:
        if config is not None:
            dead = False
            for t, pol in s.guards:
                v = eval_enum_cond(t, config)
                if v is not None and v != pol:
                    dead = True
                    break
            if dead:
                continue
        live.append(s)
    out: Set[str] = set(targets)
    why: Dict[str, DefSite] = {}
    changed = True
    while changed:
        changed = False
        for s in live:
            if s.keys & out:
                new = s.reads | (s.guard_reads if control else set())
                for n in new:
                    if n not in out:
                        out.add(n)
                        why[n] = s
                        changed = True
    return out, why
