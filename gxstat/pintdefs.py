"""Static reading of pint's unit-definition files (data, not code): which identifiers a unit expression may use.

Only what the catalogue check needs: names, symbols and aliases of units, prefixes, `@alias` lines; unit lines inside `@group`
blocks count, `@system`/`@context`/`@defaults` blocks do not define names.  An identifier resolves if it is a defined name, a prefix
followed by a defined name, or either of those with one trailing `s` removed (pint's plural rule)."""
from __future__ import annotations

import os
import re
from typing import Dict, List, Optional, Set, Tuple

_ID = re.compile(r'[A-Za-z_°µμΩÅ%][A-Za-z_0-9°µμΩÅ%]*')


class PintDefs:
    def __init__(self, files: List[str]):
        self.units: Set[str] = set()
        self.prefixes: Set[str] = set()
        self.files = []
        for f in files:
            self._load(f)

    def _load(self, path: str, seen: Optional[Set[str]] = None) -> None:
        seen = seen if seen is not None else set()
        path = os.path.abspath(path)
        if path in seen or not os.path.exists(path):
            return
        seen.add(path)
        self.files.append(path)
        block = None
        for raw in open(path, encoding='utf-8'):
            line = raw.split('#', 1)[0].rstrip()
            if not line.strip():
                continue
            st = line.strip()
            if st.startswith('@import'):
                self._load(os.path.join(os.path.dirname(path), st.split(None, 1)[1].strip()), seen)
                continue
            if st.startswith('@end'):
                block = None
                continue
            if st.startswith('@alias'):
                parts = [p.strip() for p in st[len('@alias'):].split('=')]
                self.units.update(p for p in parts if p)
                continue
            if st.startswith('@'):
                block = st.split()[0]
                continue
            if block in ('@system', '@context', '@defaults'):
                continue
            if '=' not in st:
                continue
            parts = [p.strip() for p in st.split('=')]
            name = parts[0]
            if name.startswith('['):
                continue                      # derived dimension
            if name.endswith('-'):
                for p in [name] + parts[2:]:
                    p = p.strip()
                    if p.endswith('-') and p != '_':
                        self.prefixes.add(p[:-1])
                continue
            self.units.add(name)
            for p in parts[2:]:               # parts[1] is the definition
                p = p.strip()
                if p and p != '_':
                    self.units.add(p)

    def resolves(self, ident: str) -> bool:
        for cand in (ident, ident[:-1] if ident.endswith('s') and len(ident) > 1 else None):
            if not cand:
                continue
            if cand in self.units:
                return True
            for p in self.prefixes:
                if p and cand.startswith(p) and cand[len(p):] in self.units:
                    return True
        return False

    def unknown_identifiers(self, expr: str) -> List[str]:
        """Identifiers of a unit expression that do not resolve ('' and pure numbers have none)."""
        if expr.strip() == '':
            return []
        if ' ' in expr.strip() and not re.fullmatch(r'[A-Za-z_0-9°µμ%*/(). ]+', expr.strip()):
            return [expr]
        out = []
        # words separated by blanks are an implicit product for pint only when each is an identifier; a phrase is not a unit
        for tok in _ID.findall(expr):
            if not self.resolves(tok):
                out.append(tok)
        return out


_CACHE: Dict[Tuple[str, ...], PintDefs] = {}


def load(files: List[str]) -> PintDefs:
    k = tuple(files)
    if k not in _CACHE:
        _CACHE[k] = PintDefs(files)
    return _CACHE[k]
