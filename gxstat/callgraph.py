"""Resolved call graph over the repository (over-approximate on unknown receivers)."""
from __future__ import annotations

import ast
from typing import Dict, Iterable, List, Optional, Set, Tuple

from .srcmodel import ClassInfo, FuncInfo, ModuleInfo, Repo, dotted_name, walk_no_nested

# roles of the Model object -> classes that may sit there are read from Model.__init__/read_parameters
ROLE_ATTRS = ('reserv', 'wellbores', 'surfaceplant', 'economics', 'outputs', 'addeconomics', 'addoutputs',
              'sdacgteconomics', 'sdacgtoutputs')


class CallGraph:
    def __init__(self, repo: Repo):
        self.repo = repo
        self.funcs: List[FuncInfo] = list(repo.all_functions())
        self.by_node: Dict[int, FuncInfo] = {id(f.node): f for f in self.funcs}
        self.methods_by_name: Dict[str, List[FuncInfo]] = {}
        for f in self.funcs:
            if f.cls is not None:
                self.methods_by_name.setdefault(f.name, []).append(f)
        self.roles = self._role_classes()
        self.edges: Dict[int, List[Tuple[ast.Call, List[FuncInfo], str]]] = {}
        self.unresolved: List[str] = []
        self.resolved_calls = 0
        self.external_calls = 0
        for f in self.funcs:
            self.edges[id(f.node)] = self._resolve_calls(f)
        # module-level code (e.g. __main__.py) as pseudo functions
        self.module_edges: Dict[str, List[Tuple[ast.Call, List[FuncInfo], str]]] = {}
        for mi in repo.modules.values():
            pseudo = FuncInfo('<module>', '<module>', mi.tree, mi)
            self.module_edges[mi.rel] = self._resolve_calls(pseudo, module_level=True)

    # --------------------------------------------------------------------------------------
    def _role_classes(self) -> Dict[str, List[ClassInfo]]:
        roles: Dict[str, List[ClassInfo]] = {r: [] for r in ROLE_ATTRS}
        try:
            model = self.repo.cls('Model', 'geophires_x/Model.py')
        except Exception:
            return roles
        for fn in model.methods.values():
            for n in ast.walk(fn.node):
                tgt = val = None
                if isinstance(n, ast.Assign) and len(n.targets) == 1:
                    tgt, val = n.targets[0], n.value
                elif isinstance(n, ast.AnnAssign) and n.value is not None:
                    tgt, val = n.target, n.value
                if tgt is None or not isinstance(val, ast.Call):
                    continue
                d = dotted_name(tgt)
                if d and d.startswith('self.') and d[5:] in roles:
                    cn = dotted_name(val.func)
                    ci = self.repo.find_cls(cn, model.module) if cn else None
                    if ci is not None and ci not in roles[d[5:]]:
                        roles[d[5:]].append(ci)
        return roles

    def _imported_target(self, mi: ModuleInfo, name: str):
        """Resolve a local name through the module's imports to a FuncInfo / ClassInfo / ModuleInfo."""
        tgt = mi.imports.get(name)
        if tgt is None:
            # star imports
            for k, v in mi.imports.items():
                if v.endswith('.*'):
                    m = self._module_by_dotted(v[:-2], mi)
                    if m is not None:
                        if name in m.functions:
                            return m.functions[name]
                        if name in m.classes:
                            return m.classes[name]
            return None
        parts = tgt.lstrip('.').split('.')
        # whole module?
        m = self._module_by_dotted(tgt, mi)
        if m is not None:
            return m
        m = self._module_by_dotted('.'.join(parts[:-1]) if not tgt.startswith('.') else
                                   tgt[:len(tgt) - len(parts[-1]) - 1], mi)
        if m is not None:
            if parts[-1] in m.functions:
                return m.functions[parts[-1]]
            if parts[-1] in m.classes:
                return m.classes[parts[-1]]
        return None

    def _module_by_dotted(self, dotted: str, near: ModuleInfo) -> Optional[ModuleInfo]:
        if dotted.startswith('.'):
            level = len(dotted) - len(dotted.lstrip('.'))
            base = near.dotted.split('.')
            if not near.rel.endswith('__init__.py'):
                base = base[:-1]
            base = base[:len(base) - (level - 1)] if level > 1 else base
            rest = dotted.lstrip('.')
            dotted = '.'.join(base + ([rest] if rest else []))
        for m in self.repo.modules.values():
            if m.dotted == dotted:
                return m
        return None

    def _class_of(self, f: FuncInfo) -> Optional[ClassInfo]:
        return f.cls

    def _dispatch(self, ci: ClassInfo, name: str) -> List[FuncInfo]:
        """self.m() on a receiver of static class ci: the MRO target plus overrides in subclasses."""
        out: List[FuncInfo] = []
        t = self.repo.resolve_method(ci, name)
        if t is not None:
            out.append(t)
        for sc in self.repo.subclasses(ci):
            if name in sc.methods and sc.methods[name] not in out:
                out.append(sc.methods[name])
        return out

    def _resolve_calls(self, f: FuncInfo, module_level: bool = False):
        res = []
        mi = f.module
        nodes: Iterable[ast.AST]
        if module_level:
            nodes = [n for st in mi.tree.body if not isinstance(st, (ast.FunctionDef, ast.ClassDef, ast.AsyncFunctionDef))
                     for n in ast.walk(st)]
        else:
            nodes = ast.walk(f.node)   # includes nested defs/lambdas: their calls are attributed to the outer function
        for n in nodes:
            if not isinstance(n, ast.Call):
                continue
            targets, how = self.resolve_call(n, f)
            if targets:
                self.resolved_calls += 1
            elif how in ('external', 'nested'):
                self.external_calls += 1
            else:
                self.unresolved.append(f'{mi.rel}:{n.lineno} {dotted_name(n.func) or type(n.func).__name__}')
            res.append((n, targets, how))
        return res

    def resolve_call(self, n: ast.Call, f: FuncInfo) -> Tuple[List[FuncInfo], str]:
        mi = f.module
        fn = n.func
        # super().m(...)
        if isinstance(fn, ast.Attribute) and isinstance(fn.value, ast.Call) and dotted_name(fn.value.func) == 'super':
            if f.cls is not None:
                mro = self.repo.mro(f.cls)
                for c in mro[1:]:
                    if fn.attr in c.methods:
                        return [c.methods[fn.attr]], 'super'
            return [], 'external'
        d = dotted_name(fn)
        if d is None:
            # call on a call result / subscript: try method name
            if isinstance(fn, ast.Attribute):
                return self._by_name(fn.attr)
            return [], 'external'
        parts = d.split('.')
        if len(parts) == 1:
            name = parts[0]
            # nested def in the same function?
            if name in self._nested_defs(f):
                return [], 'nested'       # its body is already attributed to f
            if name in mi.functions:
                return [mi.functions[name]], 'module-func'
            if name in mi.classes:
                return self._ctor(mi.classes[name]), 'ctor'
            t = self._imported_target(mi, name)
            if isinstance(t, FuncInfo):
                return [t], 'imported-func'
            if isinstance(t, ClassInfo):
                return self._ctor(t), 'ctor'
            return [], 'external'
        head, meth = parts[0], parts[-1]
        if head in ('self', 'cls') and f.cls is not None:
            if len(parts) == 2:
                t = self._dispatch(f.cls, meth)
                if t:
                    return t, 'self'
                return [], 'external'
            # self.<role/attr>.m()
            return self._by_attr_receiver(parts[1:-1], meth)
        # Class.m(self, ...) explicit / Enum.from_x
        if len(parts) == 2:
            t = None
            if head in mi.classes:
                t = mi.classes[head]
            else:
                t = self._imported_target(mi, head)
            if isinstance(t, ClassInfo):
                m = self.repo.resolve_method(t, meth)
                return ([m], 'explicit-class') if m else ([], 'external')
            if isinstance(t, ModuleInfo):
                if meth in t.functions:
                    return [t.functions[meth]], 'module-alias'
                if meth in t.classes:
                    return self._ctor(t.classes[meth]), 'ctor'
                return [], 'external'
            if head in mi.imports or head in ('np', 'os', 'sys', 'math', 'json', 'logging', 'time', 'pd', 'npf'):
                return [], 'external'
        # dotted module path a.b.f
        if parts[0] in mi.imports and len(parts) >= 2:
            m = self._module_by_dotted('.'.join(parts[:-1]), mi)
            if m is not None and meth in m.functions:
                return [m.functions[meth]], 'module-path'
            t = self._imported_target(mi, parts[0])
            if isinstance(t, ModuleInfo) or t is None:
                if t is None:
                    return [], 'external'
        # <local> = ClassName(...) earlier in the same function
        if len(parts) == 2:
            lc = self._local_ctor_types(f).get(head)
            if lc:
                out: List[FuncInfo] = []
                for ci in lc:
                    for t in self._dispatch(ci, meth):
                        if t not in out:
                            out.append(t)
                if out:
                    return out, 'local-ctor'
        # model.<role>.m(...) or <local>.m(...)
        return self._by_attr_receiver(parts[:-1], meth)

    def _nested_defs(self, f: FuncInfo) -> Set[str]:
        c = self.__dict__.setdefault('_nd', {})
        if id(f.node) not in c:
            c[id(f.node)] = {sub.name for sub in ast.walk(f.node)
                             if isinstance(sub, (ast.FunctionDef, ast.AsyncFunctionDef)) and sub is not f.node}
        return c[id(f.node)]

    def _local_ctor_types(self, f: FuncInfo) -> Dict[str, List[ClassInfo]]:
        c = self.__dict__.setdefault('_lct', {})
        if id(f.node) in c:
            return c[id(f.node)]
        out: Dict[str, List[ClassInfo]] = {}
        for n in ast.walk(f.node):
            tgt = val = None
            if isinstance(n, ast.Assign) and len(n.targets) == 1:
                tgt, val = n.targets[0], n.value
            elif isinstance(n, ast.AnnAssign) and n.value is not None:
                tgt, val = n.target, n.value
            if isinstance(tgt, ast.Name) and isinstance(val, ast.Call):
                cn = dotted_name(val.func)
                if cn:
                    last = cn.split('.')[-1]
                    ci = None
                    if last in f.module.classes:
                        ci = f.module.classes[last]
                    else:
                        t = self._imported_target(f.module, cn.split('.')[0])
                        if isinstance(t, ClassInfo):
                            ci = t
                        elif isinstance(t, ModuleInfo) and last in t.classes:
                            ci = t.classes[last]
                    if ci is not None:
                        out.setdefault(tgt.id, []).append(ci)
                    else:
                        out.setdefault(tgt.id, [])
                        out[tgt.id] = out[tgt.id]  # unknown ctor: keep whatever is known
        c[id(f.node)] = {k: v for k, v in out.items() if v}
        return c[id(f.node)]

    def _ctor(self, ci: ClassInfo) -> List[FuncInfo]:
        out = []
        for nm in ('__init__', '__post_init__'):
            m = self.repo.resolve_method(ci, nm)
            if m is not None:
                out.append(m)
        return out

    def _by_attr_receiver(self, recv: List[str], meth: str) -> Tuple[List[FuncInfo], str]:
        for r in recv:
            if r in self.roles and self.roles[r]:
                out: List[FuncInfo] = []
                for ci in self.roles[r]:
                    for t in self._dispatch(ci, meth):
                        if t not in out:
                            out.append(t)
                if out:
                    return out, 'role'
        return self._by_name(meth)

    _BUILTIN_METHS = {'append', 'get', 'items', 'keys', 'values', 'format', 'strip', 'split', 'join', 'write',
                      'close', 'read', 'info', 'warning', 'error', 'fatal', 'critical', 'debug', 'startswith', 'endswith',
                      'replace', 'insert', 'pop', 'copy', 'extend', 'update', 'index', 'count', 'sum', 'lower', 'upper',
                      'exists', 'add', 'remove', 'sort', 'reshape', 'tolist', 'transpose', 'item', 'group', 'match',
                      'encode', 'decode', 'seek', 'flush', 'readlines', 'readline', 'writelines', 'to', 'setLevel',
                      'mean', 'std', 'min', 'max', 'any', 'all', 'astype', 'flatten', 'fill', 'dot', 'map', 'submit',
                      'result', 'acquire_lock', 'release_lock', 'is_absolute', 'absolute', 'resolve', 'with_suffix',
                      'render', 'print', 'add_row', 'add_column', 'isdigit', 'isnumeric', 'lstrip', 'rstrip', 'find',
                      'quantity', 'mkdir', 'unlink', 'parse_args', 'add_argument', 'rename', 'dump', 'dumps', 'loads', 'load'}

    def _by_name(self, meth: str) -> Tuple[List[FuncInfo], str]:
        cands = self.methods_by_name.get(meth, [])
        if cands and meth not in self._BUILTIN_METHS:
            return list(cands), 'by-name'
        if cands:
            return list(cands), 'by-name-weak'
        return [], 'external'

    # -------------------------------------------------------------------------------------- queries
    def callees(self, f: FuncInfo, weak: bool = False) -> List[FuncInfo]:
        out: List[FuncInfo] = []
        for _, targets, how in self.edges.get(id(f.node), []):
            if how == 'by-name-weak' and not weak:
                continue
            for t in targets:
                if t not in out:
                    out.append(t)
        return out

    def reachable(self, roots: Iterable[FuncInfo], weak: bool = False) -> Dict[int, FuncInfo]:
        seen: Dict[int, FuncInfo] = {}
        stack = list(roots)
        while stack:
            f = stack.pop()
            if id(f.node) in seen:
                continue
            seen[id(f.node)] = f
            stack.extend(self.callees(f, weak))
        return seen

    def reaches(self, f: FuncInfo, pred, weak: bool = False) -> Optional[List[FuncInfo]]:
        """Shortest call path from f to a function satisfying pred (BFS), or None."""
        from collections import deque
        prev: Dict[int, Optional[FuncInfo]] = {id(f.node): None}
        byid = {id(f.node): f}
        dq = deque([f])
        while dq:
            g = dq.popleft()
            if pred(g):
                path = [g]
                while prev[id(path[-1].node)] is not None:
                    path.append(prev[id(path[-1].node)])
                return list(reversed(path))
            for h in self.callees(g, weak):
                if id(h.node) not in prev:
                    prev[id(h.node)] = g
                    byid[id(h.node)] = h
                    dq.append(h)
        return None

    def call_targets(self, call: ast.Call, f: FuncInfo) -> List[FuncInfo]:
        for n, targets, how in self.edges.get(id(f.node), []):
            if n is call:
                return targets
        return self.resolve_call(call, f)[0]


_CG: Dict[int, CallGraph] = {}


def get_callgraph(repo: Repo) -> CallGraph:
    g = _CG.get(id(repo))
    if g is None:
        g = _CG[id(repo)] = CallGraph(repo)
    return g
