"""E5: small abstract interpreters over expression trees (no execution, no solver).

* UnitTyper  -- (dimension vector, scale) typing: every monomial's literal factors must equal the ratio of the
                scales of its atoms and of the target unit.
* degree()   -- homogeneity degree of an expression in a chosen atom set.
* Sign       -- sign/interval facts.
* Affine     -- affine forms in symbols (index ranges)."""
from __future__ import annotations

import ast
from dataclasses import dataclass
from fractions import Fraction
from typing import Callable, Dict, List, Optional, Set, Tuple, Union

from .algebra import LINEAR_WRAPPERS, frac_of_number_text
from .srcmodel import AnalysisError, dotted_name, norm

Dim = Tuple[Tuple[str, int], ...]


def dim(**kw) -> Dim:
    return tuple(sorted((k, v) for k, v in kw.items() if v != 0))


def dim_mul(a: Dim, b: Dim, sign: int = 1) -> Dim:
    d: Dict[str, int] = dict(a)
    for k, v in b:
        d[k] = d.get(k, 0) + sign * v
    return tuple(sorted((k, v) for k, v in d.items() if v != 0))


# ------------------------------------------------------------------------------------------------------- unit table
# my own table: unit string (as written in Units.py enum values) -> (dimension, scale to base units)
# base units: USD, J (energy), s... here: money=USD, energy=kWh, power=kW? -> keep energy and time separate:
# power = energy/time with time in hours so that kW * hr = kWh exactly.  "per year" is treated as dimensionless
# (annualised money/energy), as the repository itself does.
E = dim(energy=1)
M = dim(money=1)
T = dim(time=1)
P = dim(energy=1, time=-1)
LEN = dim(length=1)
TEMP = dim(temperature=1)
NONE: Dim = ()
UNIT_TABLE: Dict[str, Tuple[Dim, Fraction]] = {
    '': (NONE, Fraction(1)), '%': (NONE, Fraction(1, 100)), 'percent': (NONE, Fraction(1, 100)),
    'USD': (M, Fraction(1)), 'KUSD': (M, Fraction(1000)), 'MUSD': (M, Fraction(10 ** 6)),
    'USD/yr': (M, Fraction(1)), 'KUSD/yr': (M, Fraction(1000)), 'MUSD/yr': (M, Fraction(10 ** 6)),
    'Wh': (E, Fraction(1, 1000)), 'kWh': (E, Fraction(1)), 'MWh': (E, Fraction(1000)), 'GWh': (E, Fraction(10 ** 6)),
    'Wh/year': (E, Fraction(1, 1000)), 'kWh/year': (E, Fraction(1)), 'MWh/year': (E, Fraction(1000)), 'GWh/year': (E, Fraction(10 ** 6)),
    'kWh/yr': (E, Fraction(1)), 'GWh/yr': (E, Fraction(10 ** 6)), 'MWh/yr': (E, Fraction(1000)),
    'W': (P, Fraction(1, 1000)), 'kW': (P, Fraction(1)), 'MW': (P, Fraction(1000)), 'GW': (P, Fraction(10 ** 6)),
    'cents/kWh': (dim_mul(M, E, -1), Fraction(1, 100)), 'USD/kWh': (dim_mul(M, E, -1), Fraction(1)),
    'USD/MWh': (dim_mul(M, E, -1), Fraction(1, 1000)),
    'USD/MMBTU': (dim_mul(M, E, -1), Fraction(1) / Fraction('293.07107')),
    'hr': (T, Fraction(1)), 'hour': (T, Fraction(1)), 'yr': (NONE, Fraction(1)), 'year': (NONE, Fraction(1)),
    'MMBTU': (E, Fraction('293.07107')),
    'J': (E, Fraction(1, 3600000)), 'kJ': (E, Fraction(1, 3600)), '1e15 J': (E, Fraction(10 ** 15, 3600000)),
    # lengths (base: metre) and temperature gradients (base: K per metre); exact by definition of the inch/foot/mile
    'meter': (LEN, Fraction(1)), 'centimeter': (LEN, Fraction(1, 100)), 'kilometer': (LEN, Fraction(1000)),
    'ft': (LEN, Fraction(3048, 10000)), 'in': (LEN, Fraction(254, 10000)), 'mile': (LEN, Fraction(1609344, 1000)),
    'degC/km': (dim_mul(TEMP, LEN, -1), Fraction(1, 1000)), 'degC/m': (dim_mul(TEMP, LEN, -1), Fraction(1)),
    'degF/mi': (dim_mul(TEMP, LEN, -1), Fraction(5, 9) / Fraction(1609344, 1000)),
}
REL_TOL = Fraction(5, 10000)


def close(a: Fraction, b: Fraction, tol: Fraction = REL_TOL) -> bool:
    if a == b:
        return True
    if a == 0 or b == 0:
        return False
    return abs(a - b) <= tol * max(abs(a), abs(b))


@dataclass(frozen=True)
class UT:
    """Unit type of an expression: physical quantity = value * scale * (base units of dim)."""
    dim: Dim
    scale: Fraction

    def show(self) -> str:
        d = '*'.join(f'{k}^{v}' if v != 1 else k for k, v in self.dim) or '1'
        return f'{float(self.scale):.6g} {d}'


@dataclass(frozen=True)
class Lit:
    """Pure numeric literal (unit-polymorphic)."""
    v: Fraction


class UnitMismatch(Exception):
    def __init__(self, msg: str, node: ast.AST = None):
        super().__init__(msg)
        self.node = node


def _inlined_helper(call: ast.Call):
    """The expression a repository helper call stands for (named intermediates + one returned expression), or None."""
    from .algebra import INLINE_FUNCTIONS
    if isinstance(call.func, ast.Name) and call.func.id in INLINE_FUNCTIONS:
        from .inline import inline_simple_calls
        e2 = inline_simple_calls(call, {call.func.id: INLINE_FUNCTIONS[call.func.id]})
        if not (isinstance(e2, ast.Call) and isinstance(e2.func, ast.Name) and e2.func.id == call.func.id):
            return e2
    return None


class UnitTyper:
    """Types an expression.  atom_type(key, node) -> UT | None (None => unknown atom => AnalysisError unless
    `unknown_ok`, in which case the expression is reported untypable).  binds: symflow Defs followed lazily."""

    def __init__(self, atom_type: Callable[[str, ast.AST], Optional[UT]], binds=None, inline: Callable[[str], bool] = None,
                 dimensionless_calls: Set[str] = None):
        self.atom_type = atom_type
        self.binds = binds or {}
        self.inline = inline
        self._memo: Dict[int, object] = {}
        self.dimensionless_calls = dimensionless_calls or set()
        self.unknown: List[str] = []

    def ty_def(self, d):
        if d.expr is None:
            raise UnitMismatch(f'`{d.key}` is written element-wise / in a loop (line {d.line}); not typable here')
        if id(d) in self._memo:
            return self._memo[id(d)]
        saved = self.binds
        self.binds = d.binds
        try:
            r = self.ty(d.expr)
        finally:
            self.binds = saved
        self._memo[id(d)] = r
        return r

    def ty(self, node: ast.AST):
        if isinstance(node, ast.Constant) and isinstance(node.value, (int, float)) and not isinstance(node.value, bool):
            return Lit(frac_of_number_text(node))
        if isinstance(node, ast.UnaryOp) and isinstance(node.op, (ast.USub, ast.UAdd)):
            t = self.ty(node.operand)
            if isinstance(t, Lit):
                return Lit(-t.v if isinstance(node.op, ast.USub) else t.v)
            return t
        if isinstance(node, ast.BinOp):
            if isinstance(node.op, ast.Pow):
                b, e = self.ty(node.left), self.ty(node.right)
                if isinstance(b, Lit) and isinstance(e, Lit) and e.v.denominator == 1 and abs(e.v) < 64:
                    return Lit(b.v ** int(e.v))
                if isinstance(e, Lit) and e.v.denominator == 1 and isinstance(b, UT):
                    k = int(e.v)
                    return UT(tuple((n, x * k) for n, x in b.dim), b.scale ** k)
                if isinstance(b, UT) and b.dim == NONE:
                    return UT(NONE, Fraction(1))
                if isinstance(b, Lit):
                    return UT(NONE, Fraction(1))
                raise UnitMismatch(f'power of a dimensioned quantity with non-literal exponent: {norm(node)[:60]}', node)
            a, b = self.ty(node.left), self.ty(node.right)
            if isinstance(node.op, (ast.Mult, ast.Div)):
                sgn = 1 if isinstance(node.op, ast.Mult) else -1
                if isinstance(a, Lit) and isinstance(b, Lit):
                    if sgn == -1 and b.v == 0:
                        raise UnitMismatch('division by literal zero', node)
                    return Lit(a.v * b.v if sgn == 1 else a.v / b.v)
                if isinstance(a, Lit):
                    # value' = lit (*|/) value(b)  =>  scale' = scale(b)^sgn / lit
                    if a.v == 0:
                        return Lit(Fraction(0))
                    return UT(tuple((n, x * sgn) for n, x in b.dim), (b.scale ** sgn) / a.v)
                if isinstance(b, Lit):
                    if b.v == 0:
                        if sgn == 1:
                            return Lit(Fraction(0))
                        raise UnitMismatch('division by literal zero', node)
                    return UT(a.dim, a.scale / b.v if sgn == 1 else a.scale * b.v)
                return UT(dim_mul(a.dim, b.dim, sgn), a.scale * (b.scale ** sgn))
            if isinstance(node.op, (ast.Add, ast.Sub)):
                return self._add(a, b, node)
            raise UnitMismatch(f'unsupported operator in {norm(node)[:60]}', node)
        if isinstance(node, ast.Call):
            e2 = _inlined_helper(node)
            if e2 is not None:
                return self.ty(e2)
            d = dotted_name(node.func) or norm(node.func)
            if d in LINEAR_WRAPPERS and node.args:
                return self.ty(node.args[0])
            if d in ('np.power', 'pow') and len(node.args) == 2:
                return self.ty(ast.BinOp(left=node.args[0], op=ast.Pow(), right=node.args[1]))
            if d in ('abs', 'np.abs', 'math.fabs', 'np.fabs', 'max', 'min', 'np.maximum', 'np.minimum', 'round', 'np.round') and node.args:
                ts = [self.ty(a) for a in node.args if not (isinstance(a, ast.Constant) and d in ('round', 'np.round') and a is not node.args[0])]
                r = ts[0]
                for t in ts[1:]:
                    r = self._add(r, t, node)
                return r
            if d in ('np.linspace', 'np.arange', 'range', 'len', 'np.exp', 'np.log', 'math.exp', 'math.log', 'erf', 'erfc',
                     'np.sqrt', 'math.sqrt') or d in self.dimensionless_calls:
                return UT(NONE, Fraction(1))
            t = self.atom_type(norm(node), node)
            if t is not None:
                return t
            self.unknown.append(norm(node)[:80])
            raise UnitMismatch(f'call `{norm(node)[:60]}` has no unit type', node)
        if isinstance(node, (ast.Name, ast.Attribute)):
            key = norm(node)
            d = self.binds.get(key)
            if d is not None and (self.inline is None or self.inline(key)):
                return self.ty_def(d)
            t = self.atom_type(key, node)
            if t is None:
                self.unknown.append(key)
                raise UnitMismatch(f'atom `{key}` has no unit type', node)
            return t
        if isinstance(node, ast.Subscript):
            # element of a series has the unit of the series
            return self.ty(node.value)
        if isinstance(node, ast.IfExp):
            return self._add(self.ty(node.body), self.ty(node.orelse), node)
        raise UnitMismatch(f'unsupported construct {type(node).__name__}: {norm(node)[:60]}', node)

    def _add(self, a, b, node):
        if isinstance(a, Lit) and isinstance(b, Lit):
            return Lit(a.v + b.v)
        if isinstance(a, Lit) or isinstance(b, Lit):
            lit, t = (a, b) if isinstance(a, Lit) else (b, a)
            if lit.v == 0:
                return t
            if t.dim == NONE and close(t.scale, Fraction(1)):
                return t            # 1 + rate, 1 - fraction
            raise UnitMismatch(f'literal {float(lit.v):g} added to a quantity of type {t.show()} in `{norm(node)[:70]}`', node)
        if a.dim != b.dim:
            raise UnitMismatch(f'terms of different dimension added ({a.show()} vs {b.show()}) in `{norm(node)[:70]}`', node)
        if not close(a.scale, b.scale):
            raise UnitMismatch(f'terms of different scale added ({a.show()} vs {b.show()}) in `{norm(node)[:70]}`: '
                               f'a conversion factor is missing or wrong', node)
        return a


# ------------------------------------------------------------------------------------------------------- degree
def degree(node: ast.AST, in_set: Callable[[str], bool], binds=None, zero_calls_ok: bool = True, _memo=None,
           zero: Callable[[str], bool] = None) -> Optional[int]:
    """Homogeneity degree of the expression in the atoms selected by in_set; None if not homogeneous/decidable.
    Literals have degree 0 (and literal 0 is polymorphic: returns 'any' encoded as -999)."""
    ANY = -999
    binds = binds or {}
    memo = _memo if _memo is not None else {}

    def comb(a, b):
        if a is None or b is None:
            return None
        if a == ANY:
            return b
        if b == ANY:
            return a
        return a if a == b else None

    def go(n, b) -> Optional[int]:
        if isinstance(n, ast.Constant):
            if isinstance(n.value, (int, float)) and n.value == 0:
                return ANY
            return 0
        if isinstance(n, ast.UnaryOp):
            return go(n.operand, b)
        if isinstance(n, ast.BinOp):
            l, r = go(n.left, b), go(n.right, b)
            if isinstance(n.op, (ast.Add, ast.Sub)):
                return comb(l, r)
            if l is None or r is None:
                return None
            if isinstance(n.op, ast.Mult):
                if l == ANY or r == ANY:
                    return ANY
                return l + r
            if isinstance(n.op, ast.Div):
                if l == ANY:
                    return ANY
                if r == ANY:
                    return None
                return l - r
            if isinstance(n.op, ast.Pow):
                if isinstance(n.right, ast.Constant) and isinstance(n.right.value, int):
                    return ANY if l == ANY else l * n.right.value
                return 0 if (l == 0 and r == 0) else None
            return None
        if isinstance(n, ast.Attribute) and dotted_name(n) is None:
            # pint idiom: Quantity(x, 'kW').to('MW').magnitude is linear in x
            if n.attr in ('magnitude', 'm', 'value'):
                return go(n.value, b)
            return None
        if isinstance(n, ast.Call):
            e2 = _inlined_helper(n)
            if e2 is not None:
                return go(e2, b)
            d = dotted_name(n.func) or ''
            if isinstance(n.func, ast.Attribute) and n.func.attr == 'to' and dotted_name(n.func) is None:
                return go(n.func.value, b)
            if d.split('.')[-1] in ('Quantity', 'quantity') and len(n.args) == 2 and isinstance(n.args[1], ast.Constant):
                return go(n.args[0], b)
            if d in LINEAR_WRAPPERS and n.args:
                return go(n.args[0], b)
            if d in ('max', 'min', 'np.maximum', 'np.minimum', 'abs', 'np.abs', 'math.fabs') and n.args:
                r = go(n.args[0], b)
                for a in n.args[1:]:
                    r = comb(r, go(a, b))
                return r
            ds = [go(a, b) for a in n.args] + [go(k.value, b) for k in n.keywords]
            if all(x in (0, ANY) for x in ds):
                return 0
            return None
        if isinstance(n, (ast.Name, ast.Attribute)):
            key = norm(n)
            d = b.get(key)
            if d is not None:
                if d.expr is None:
                    return None
                if id(d) in memo:
                    return memo[id(d)]
                memo[id(d)] = None
                memo[id(d)] = go(d.expr, d.binds)
                return memo[id(d)]
            if zero is not None and zero(key):
                return ANY
            return 1 if in_set(key) else 0
        if isinstance(n, ast.Subscript):
            return go(n.value, b)
        if isinstance(n, ast.IfExp):
            return comb(go(n.body, b), go(n.orelse, b))
        if isinstance(n, (ast.List, ast.Tuple)):
            r = ANY
            for e in n.elts:
                r = comb(r, go(e, b))
            return r
        return None
    return go(node, binds)


DEG_ANY = -999


# ------------------------------------------------------------------------------------------------------- sign / monotone
INF = float('inf')


def _imul(a, b):
    c = []
    for x in a:
        for y in b:
            if (x == 0 and abs(y) == INF) or (y == 0 and abs(x) == INF):
                c.append(0.0)
            else:
                c.append(x * y)
    return (min(c), max(c))


def interval(node: ast.AST, atom_iv: Callable[[str], Optional[Tuple[float, float]]], binds=None, _memo=None) -> Tuple[float, float]:
    """Interval of an expression given intervals of its atoms (unknown atoms: (-inf, inf)).  Linear reducers are treated
    as sign-preserving (their result lies in the hull of 0 and the scaled element interval: only signs are meaningful)."""
    binds = binds or {}
    memo = _memo if _memo is not None else {}

    def go(n, b):
        if isinstance(n, ast.Constant) and isinstance(n.value, (int, float)) and not isinstance(n.value, bool):
            return (float(n.value), float(n.value))
        if isinstance(n, ast.UnaryOp) and isinstance(n.op, ast.USub):
            lo, hi = go(n.operand, b)
            return (-hi, -lo)
        if isinstance(n, ast.UnaryOp) and isinstance(n.op, ast.UAdd):
            return go(n.operand, b)
        if isinstance(n, ast.BinOp):
            a, c = go(n.left, b), go(n.right, b)
            if isinstance(n.op, ast.Add):
                return (a[0] + c[0], a[1] + c[1])
            if isinstance(n.op, ast.Sub):
                return (a[0] - c[1], a[1] - c[0])
            if isinstance(n.op, ast.Mult):
                return _imul(a, c)
            if isinstance(n.op, ast.Div):
                if c[0] > 0 or c[1] < 0:
                    inv = (1.0 / c[1] if abs(c[1]) != INF else 0.0, 1.0 / c[0] if abs(c[0]) != INF else 0.0)
                    return _imul(a, (min(inv), max(inv)))
                if c[0] >= 0:      # divisor >= 0 (possibly 0): sign information only
                    return (0.0 if a[0] >= 0 else -INF, 0.0 if a[1] <= 0 else INF)
                return (-INF, INF)
            if isinstance(n.op, ast.Pow):
                if a[0] > 0:
                    return (0.0, INF)
                if isinstance(n.right, ast.Constant) and isinstance(n.right.value, int) and n.right.value % 2 == 0:
                    return (0.0, INF)
                return (-INF, INF)
            return (-INF, INF)
        if isinstance(n, ast.Call):
            e2 = _inlined_helper(n)
            if e2 is not None:
                return go(e2, b)
            d = dotted_name(n.func) or ''
            if d in LINEAR_WRAPPERS and n.args:
                lo, hi = go(n.args[0], b)
                if lo > 0:
                    return (1e-300, INF)
                if lo >= 0:
                    return (0.0, INF)
                if hi < 0:
                    return (-INF, -1e-300)
                if hi <= 0:
                    return (-INF, 0.0)
                return (-INF, INF)
            if d in ('np.power', 'pow') and len(n.args) == 2:
                base = go(n.args[0], b)
                return (1e-300, INF) if base[0] > 0 else (-INF, INF)
            if d in ('np.exp', 'math.exp'):
                return (1e-300, INF)
            if d in ('abs', 'np.abs', 'math.fabs', 'np.sqrt', 'math.sqrt'):
                return (0.0, INF)
            if d in ('np.linspace', 'np.arange') and n.args:
                first = go(n.args[0], b)
                return (first[0], INF) if first[0] >= 0 else (-INF, INF)
            if d in ('max', 'np.maximum') and n.args:
                ivs = [go(a, b) for a in n.args]
                return (max(i[0] for i in ivs), max(i[1] for i in ivs))
            if d in ('min', 'np.minimum') and n.args:
                ivs = [go(a, b) for a in n.args]
                return (min(i[0] for i in ivs), min(i[1] for i in ivs))
            iv = atom_iv(norm(n))
            return iv if iv is not None else (-INF, INF)
        if isinstance(n, (ast.Name, ast.Attribute)):
            key = norm(n)
            d = b.get(key)
            if d is not None and d.expr is not None:
                if id(d) in memo:
                    return memo[id(d)]
                memo[id(d)] = (-INF, INF)
                memo[id(d)] = go(d.expr, d.binds)
                return memo[id(d)]
            iv = atom_iv(key)
            return iv if iv is not None else (-INF, INF)
        if isinstance(n, ast.Subscript):
            return go(n.value, b)
        return (-INF, INF)
    return go(node, binds)


UP, DOWN, CONST, UNKNOWN = 'up', 'down', 'const', 'unknown'


def _flip(m):
    return {UP: DOWN, DOWN: UP}.get(m, m)


def _join(a, b):
    if a == CONST:
        return b
    if b == CONST:
        return a
    return a if a == b else UNKNOWN


def monotone(node: ast.AST, var: str, atom_iv: Callable[[str], Optional[Tuple[float, float]]], binds=None) -> str:
    """Monotonicity (non-strict) of the expression in the atom `var`: up / down / const / unknown."""
    binds = binds or {}
    memo: Dict[int, str] = {}

    def sgn(n, b):
        lo, hi = interval(n, atom_iv, b)
        if lo >= 0:
            return 1
        if hi <= 0:
            return -1
        return 0

    def go(n, b) -> str:
        if isinstance(n, ast.Constant):
            return CONST
        if isinstance(n, ast.UnaryOp) and isinstance(n.op, ast.USub):
            return _flip(go(n.operand, b))
        if isinstance(n, ast.UnaryOp):
            return go(n.operand, b)
        if isinstance(n, ast.BinOp):
            l, r = go(n.left, b), go(n.right, b)
            if isinstance(n.op, ast.Add):
                return _join(l, r)
            if isinstance(n.op, ast.Sub):
                return _join(l, _flip(r))
            if isinstance(n.op, ast.Mult):
                if l == CONST and r == CONST:
                    return CONST
                if l == CONST or r == CONST:
                    c, v = (n.left, r) if l == CONST else (n.right, l)
                    s = sgn(c, b)
                    return v if s > 0 else _flip(v) if s < 0 else UNKNOWN
                # both vary: product of two non-negative functions moving the same way
                if l == r and l in (UP, DOWN) and sgn(n.left, b) > 0 and sgn(n.right, b) > 0:
                    return l
                return UNKNOWN
            if isinstance(n.op, ast.Div):
                if r == CONST:
                    s = sgn(n.right, b)
                    return l if s > 0 else _flip(l) if s < 0 else UNKNOWN
                if l == CONST:
                    sn, sd = sgn(n.left, b), sgn(n.right, b)
                    if sd == 0 or sn == 0:
                        return UNKNOWN
                    # c / f(x): decreasing in f when c and f have fixed signs (c/f, f>0, c>0)
                    return _flip(r) if sn * 1 > 0 else r
                return UNKNOWN
            if isinstance(n.op, ast.Pow):
                if r == CONST and isinstance(n.right, ast.Constant) and isinstance(n.right.value, (int, float)) and n.right.value > 0 and sgn(n.left, b) > 0:
                    return l
                return UNKNOWN if (l != CONST or r != CONST) else CONST
            return UNKNOWN
        if isinstance(n, ast.Call):
            e2 = _inlined_helper(n)
            if e2 is not None:
                return go(e2, b)
            d = dotted_name(n.func) or ''
            if d in LINEAR_WRAPPERS and n.args:
                return go(n.args[0], b)
            if d in ('np.exp', 'math.exp', 'np.sqrt', 'math.sqrt', 'np.log', 'math.log', 'erf', 'math.erf') and n.args:
                return go(n.args[0], b)
            if d in ('erfc', 'math.erfc') and n.args:
                return _flip(go(n.args[0], b))
            if d in ('max', 'min', 'np.maximum', 'np.minimum') and n.args:
                r = CONST
                for a in n.args:
                    r = _join(r, go(a, b))
                return r
            ms = [go(a, b) for a in n.args] + [go(k.value, b) for k in n.keywords]
            return CONST if all(m == CONST for m in ms) else UNKNOWN
        if isinstance(n, (ast.Name, ast.Attribute)):
            key = norm(n)
            if key == var:
                return UP
            d = b.get(key)
            if d is not None and d.expr is not None:
                if id(d) in memo:
                    return memo[id(d)]
                memo[id(d)] = UNKNOWN
                memo[id(d)] = go(d.expr, d.binds)
                return memo[id(d)]
            return CONST
        if isinstance(n, ast.Subscript):
            return go(n.value, b)
        if isinstance(n, (ast.List, ast.Tuple)):
            r = CONST
            for e in n.elts:
                r = _join(r, go(e, b))
            return r
        return UNKNOWN
    return go(node, binds)
