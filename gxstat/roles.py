"""Names by role.  Several rules are written in the local names the pinned tree uses for what a function returns (`LCOE, LCOH, LCOC`,
`CashFlow, CummCashFlow`, `Price` ...).  What a function returns is a role, not a spelling: at load time the variables returned by the
functions listed here are alpha-renamed back to the canonical names (an exact transformation: every occurrence inside the function is
renamed, and only when the canonical name is not otherwise in use there).  On a tree that already uses the canonical names nothing changes;
what was renamed is listed in the evidence."""
from __future__ import annotations

import ast
from typing import Dict, List, Tuple

# (module suffix, class or None, function) -> canonical names of the returned variables, by position
RETURN_ROLES: Dict[Tuple[str, str, str], Tuple[str, ...]] = {
    ('geophires_x/Economics.py', '', 'CalculateLCOELCOHLCOC'): ('LCOE', 'LCOH', 'LCOC'),
    ('geophires_x/Economics.py', '', 'CalculateRevenue'): ('CashFlow', 'CummCashFlow'),
    ('geophires_x/Economics.py', '', 'BuildPricingModel'): ('Price',),
    ('geophires_x/Economics.py', '', 'BuildPTCModel'): ('Price',),
    ('geophires_x/Economics.py', '', 'CalculateFinancialPerformance'): ('NPV', 'IRR', 'VIR', 'MOIC'),
    ('geophires_x/SurfacePlant.py', 'SurfacePlant', 'electricity_heat_production'):
        ('ElectricityProduced', 'HeatExtracted', 'HeatProduced', 'HeatExtractedTowardsElectricity'),
    ('geophires_x/SurfacePlant.py', 'SurfacePlant', 'reinjection_temperature'): ('Tinj', 'ReinjTemp', 'etau'),
    ('geophires_x/SurfacePlant.py', 'SurfacePlant', 'annual_electricity_pumping_power'):
        ('HeatkWhExtracted', 'PumpingkWh', 'TotalkWhProduced', 'NetkWhProduced', 'HeatkWhProduced'),
}


def _returned_names(fn: ast.AST, n: int):
    """The names returned (same names on every value-returning exit), or None."""
    seen = set()
    stack = list(ast.iter_child_nodes(fn))
    own: List[ast.AST] = []
    while stack:                       # returns of nested functions are theirs
        x = stack.pop()
        if isinstance(x, (ast.FunctionDef, ast.AsyncFunctionDef, ast.Lambda, ast.ClassDef)):
            continue
        own.append(x)
        stack.extend(ast.iter_child_nodes(x))
    for r in own:
        if isinstance(r, ast.Return) and r.value is not None:
            v = r.value
            elts = v.elts if isinstance(v, ast.Tuple) else [v]
            if len(elts) != n or not all(isinstance(e, ast.Name) for e in elts):
                return None
            seen.add(tuple(e.id for e in elts))
    return next(iter(seen)) if len(seen) == 1 else None


def normalise_return_names(repo) -> List[str]:
    done: List[str] = []
    for (suffix, cls, name), canon in RETURN_ROLES.items():
        hits = [m for r, m in repo.modules.items() if r == suffix or r.endswith('/' + suffix)]
        if len(hits) != 1:
            continue
        mi = hits[0]
        f = (mi.classes.get(cls).methods.get(name) if cls and cls in mi.classes else None) if cls else mi.functions.get(name)
        if f is None:
            continue
        actual = _returned_names(f.node, len(canon))
        if actual is None or actual == canon or len(set(actual)) != len(actual):
            continue
        params = {a.arg for a in f.node.args.args + f.node.args.kwonlyargs}
        used = {x.id for x in ast.walk(f.node) if isinstance(x, ast.Name)} | params
        mapping = {a: c for a, c in zip(actual, canon) if a != c}
        # the canonical name must be free in the function, and a returned parameter keeps its name.  Canonical names returned at another
        # position are a permutation of the result, not a renaming: left as written for the rules to report.
        if any(c in used for c in mapping.values()) or any(a in params for a in mapping):
            continue
        for x in ast.walk(f.node):
            if isinstance(x, ast.Name) and x.id in mapping:
                x.id = mapping[x.id]
        done.append(f'{f.qualname}: ' + ', '.join(f'{a}->{c}' for a, c in mapping.items()))
    return done
