"""gxstat -- static-analysis engines for the GEOPHIRES-X property checks (stdlib only)."""
