"""E3: syntax-directed path enumeration over a function body with def-use chains.

Not an executor: no value is computed and no path feasibility is asked of a solver.  The walker forks at the
`if` statements that can influence the queried targets (backward slice on assigned names) and records, per
syntactic path, the guards taken and for every tracked key its *definition* (the right-hand side expression
together with the definitions that were current for the names it reads).  Definitions are shared between
paths and never copied, so expansion is done lazily by the consumers (algebra.Translator, expand())."""
from __future__ import annotations

import ast
import copy
from dataclasses import dataclass, field
from typing import Callable, Dict, List, Optional, Sequence, Set, Tuple

from .srcmodel import clone, AnalysisError, dotted_name, norm

MAX_PATHS = 4096


def target_key(t: ast.AST) -> Optional[str]:
    """Key of an assignable: Name or pure attribute path (self.CCap.value); None for subscripts/others."""
    if isinstance(t, ast.Name):
        return t.id
    if isinstance(t, ast.Attribute):
        return dotted_name(t)
    return None


def names_read(node: ast.AST) -> Set[str]:
    out: Set[str] = set()
    for n in ast.walk(node):
        if isinstance(n, ast.Name) and isinstance(n.ctx, ast.Load):
            out.add(n.id)
        elif isinstance(n, ast.Attribute) and isinstance(n.ctx, ast.Load):
            d = dotted_name(n)
            if d:
                out.add(d)
    return out


def assigned_keys(stmts: Sequence[ast.stmt]) -> Set[str]:
    out: Set[str] = set()
    for st in stmts:
        for n in ast.walk(st):
            tg: List[ast.AST] = []
            if isinstance(n, ast.Assign):
                for t in n.targets:
                    tg.extend(t.elts if isinstance(t, (ast.Tuple, ast.List)) else [t])
            elif isinstance(n, (ast.AugAssign, ast.AnnAssign)):
                tg = [n.target]
            elif isinstance(n, ast.For):
                tg = [n.target]
            for t in tg:
                k = target_key(t)
                if k:
                    out.add(k)
                elif isinstance(t, ast.Subscript):
                    k = target_key(t.value)
                    if k:
                        out.add(k)
    return out


class Def:
    """One definition of a key: expression + the definitions current for the names it reads."""
    __slots__ = ('key', 'expr', 'binds', 'line', 'kind', 'stmt')

    def __init__(self, key: str, expr: Optional[ast.AST], binds: Dict[str, 'Def'], line: int, kind: str = 'assign',
                 stmt: ast.stmt = None):
        self.key = key
        self.expr = expr          # None => opaque (loop / subscript store / unsupported)
        self.binds = binds
        self.line = line
        self.kind = kind          # assign | aug | opaque | tuple-item
        self.stmt = stmt

    def __repr__(self):
        return f'<Def {self.key}@{self.line} {self.kind}>'


def _binds_for(expr: ast.AST, env: Dict[str, Def]) -> Dict[str, Def]:
    if not env:
        return {}
    return {k: env[k] for k in names_read(expr) if k in env}


@dataclass
class Path:
    conds: List[Tuple[ast.AST, bool, Dict[str, Def]]] = field(default_factory=list)
    env: Dict[str, Def] = field(default_factory=dict)
    ret: Optional[Def] = None
    ended: str = ''            # 'return' | 'raise' | 'fallthrough'
    writes: Dict[str, List[int]] = field(default_factory=dict)   # key -> line numbers of writes on this path
    calls: List[ast.Call] = field(default_factory=list)          # statement-level calls passed on this path (in order)

    def fork(self) -> 'Path':
        return Path(list(self.conds), dict(self.env), self.ret, self.ended,
                    {k: list(v) for k, v in self.writes.items()}, list(self.calls))

    def opaque(self, key: str) -> bool:
        d = self.env.get(key)
        return d is not None and d.expr is None


class PathEnumerator:
    """Enumerate syntactic paths through `stmts` with respect to `targets` (keys of interest)."""

    def __init__(self, stmts: Sequence[ast.stmt], targets: Set[str], fork_all: bool = False,
                 max_paths: int = MAX_PATHS, track_calls: bool = False, also_fork_on: Callable[[ast.If], bool] = None,
                 slice_deps: bool = True, prune: bool = True, inline_calls: Callable[[ast.Call], Optional[List[ast.stmt]]] = None):
        self.stmts = list(stmts)
        self.max_paths = max_paths
        self.fork_all = fork_all
        self.track_calls = track_calls
        self.also_fork_on = also_fork_on
        self.prune = prune
        self.inline_calls = inline_calls        # statement-level call -> the callee's body to walk in place (helper extraction)
        self._inline_depth = 0
        self._extra_for_slice: List[ast.stmt] = []
        if inline_calls is not None:
            # the bodies that will be walked in place take part in the backward slice
            todo, depth = list(self.stmts), 0
            while todo and depth < 3:
                nxt: List[ast.stmt] = []
                for st0 in todo:
                    for n in ast.walk(st0):
                        b_ = None
                        try:
                            if isinstance(n, ast.Expr) and isinstance(n.value, ast.Call):
                                b_ = inline_calls(n.value)
                            elif isinstance(n, ast.Assign) and len(n.targets) == 1 and isinstance(n.value, ast.Call):
                                b_ = inline_calls(n.value, n.targets[0])
                        except TypeError:
                            b_ = None
                        if b_:
                            nxt.extend(b_)
                self._extra_for_slice.extend(nxt)
                todo, depth = nxt, depth + 1
        self.dep_filter = (lambda k: '.' not in k) if slice_deps == 'locals' else None
        self.relevant = self._slice(set(targets)) if slice_deps else set(targets)
        self._assigned_anywhere = assigned_keys(self.stmts)
        # plain local names that guards read (`enduse = model...enduse_option.value; if enduse == ...`) are tracked as well, so that
        # consumers can expand a guard through its aliases; only names assigned exactly once at the top level (no forking influence)
        top_once: Dict[str, int] = {}
        for st0 in self.stmts:
            for st in ast.walk(st0):
                if isinstance(st, ast.Name) and isinstance(st.ctx, ast.Store):
                    top_once[st.id] = top_once.get(st.id, 0) + 1
        guard_names: Set[str] = set()
        for st in self.stmts:
            for n in ast.walk(st):
                if isinstance(n, ast.If):
                    guard_names |= {x.id for x in ast.walk(n.test) if isinstance(x, ast.Name)}
        galias = {g for g in guard_names if top_once.get(g) == 1}
        # ... and, transitively, the once-assigned names their definitions read (`is_plain = is_heat_only and plant_type not in X`)
        for _ in range(4):
            more: Set[str] = set()
            for st0 in self.stmts:
                for st in ast.walk(st0):
                    if isinstance(st, ast.Assign) and len(st.targets) == 1 and isinstance(st.targets[0], ast.Name) \
                            and st.targets[0].id in galias:
                        more |= {x.id for x in ast.walk(st.value) if isinstance(x, ast.Name) and top_once.get(x.id) == 1}
            if more <= galias:
                break
            galias |= more
        self.relevant |= galias

    # ---- backward slice: which names can influence the targets
    def _slice(self, targets: Set[str]) -> Set[str]:
        rel = set(targets)
        all_assigns: List[Tuple[Set[str], Set[str]]] = []
        for st in list(self.stmts) + list(getattr(self, '_extra_for_slice', [])):
            for n in ast.walk(st):
                if isinstance(n, ast.Assign):
                    ks = set()
                    for t in n.targets:
                        for e in (t.elts if isinstance(t, (ast.Tuple, ast.List)) else [t]):
                            k = target_key(e) or (target_key(e.value) if isinstance(e, ast.Subscript) else None)
                            if k:
                                ks.add(k)
                    all_assigns.append((ks, names_read(n.value)))
                elif isinstance(n, ast.AugAssign):
                    k = target_key(n.target) or (target_key(n.target.value) if isinstance(n.target, ast.Subscript) else None)
                    if k:
                        all_assigns.append(({k}, names_read(n.value) | {k}))
                elif isinstance(n, ast.AnnAssign) and n.value is not None:
                    k = target_key(n.target)
                    if k:
                        all_assigns.append(({k}, names_read(n.value)))
        changed = True
        while changed:
            changed = False
            for ks, reads in all_assigns:
                if self.dep_filter is not None:
                    reads = {r for r in reads if self.dep_filter(r)}
                if ks & rel and not reads <= rel:
                    rel |= reads
                    changed = True
        return rel

    def _touches(self, stmts: Sequence[ast.stmt]) -> bool:
        if assigned_keys(stmts) & self.relevant:
            return True
        if self.inline_calls is not None:
            for st in stmts:
                for n in ast.walk(st):
                    if isinstance(n, ast.Expr) and isinstance(n.value, ast.Call):
                        b = self.inline_calls(n.value)
                        if b is not None and assigned_keys(b) & self.relevant:
                            return True
        for st in stmts:
            for n in ast.walk(st):
                if isinstance(n, (ast.Return, ast.Raise)):
                    return True
        return False

    # ---- walking
    def paths(self) -> List[Path]:
        done: List[Path] = []
        live = self._walk(self.stmts, [Path()], done)
        for p in live:
            p.ended = p.ended or 'fallthrough'
            done.append(p)
        return done

    def _walk(self, stmts: Sequence[ast.stmt], live: List[Path], done: List[Path]) -> List[Path]:
        for st in stmts:
            if not live:
                break
            if len(live) + len(done) > self.max_paths:
                raise AnalysisError(f'path enumeration exceeds {self.max_paths} paths (line {st.lineno})')
            if isinstance(st, ast.If):
                forced = self.also_fork_on is not None and self.also_fork_on(st)
                if not self.fork_all and not forced and not self._touches(st.body) and not self._touches(st.orelse):
                    continue
                nxt: List[Path] = []
                for p in live:
                    b = _binds_for(st.test, p.env)
                    for pol, branch in ((True, st.body), (False, st.orelse)):
                        a = p.fork()
                        a.conds.append((st.test, pol, b))
                        if self.prune and not feasible(a.conds, self._assigned_anywhere):
                            continue
                        nxt.extend(self._walk(branch, [a], done))
                live = nxt
            elif isinstance(st, (ast.Assign, ast.AnnAssign, ast.AugAssign)):
                if isinstance(st, ast.Assign) and len(st.targets) == 1 and isinstance(st.value, ast.Call) and self.inline_calls is not None \
                        and self._inline_depth < 3:
                    body = None
                    try:
                        body = self.inline_calls(st.value, st.targets[0])
                    except TypeError:
                        body = None
                    if body is not None:
                        self._inline_depth += 1
                        try:
                            live = self._walk(body, live, done)
                        finally:
                            self._inline_depth -= 1
                        continue
                for p in live:
                    self._assign(st, p)
            elif isinstance(st, ast.Return):
                for p in live:
                    if st.value is not None:
                        p.ret = Def('<return>', st.value, _binds_for(st.value, p.env), st.lineno, 'return', st)
                    p.ended = 'return'
                    done.append(p)
                live = []
            elif isinstance(st, ast.Raise):
                for p in live:
                    p.ended = 'raise'
                    done.append(p)
                live = []
            elif isinstance(st, (ast.For, ast.While)):
                ks = assigned_keys(st.body) | ({target_key(st.target)} if isinstance(st, ast.For) and target_key(st.target) else set())
                for p in live:
                    for k in ks:
                        if k in self.relevant or k in p.env:
                            p.env[k] = Def(k, None, {}, st.lineno, 'opaque', st)
                            p.writes.setdefault(k, []).append(st.lineno)
            elif isinstance(st, ast.With):
                live = self._walk(st.body, live, done)
            elif isinstance(st, ast.Try):
                live = self._walk(st.body, live, done)
                live = self._walk(st.orelse, live, done)
                live = self._walk(st.finalbody, live, done)
            elif isinstance(st, ast.Expr):
                if isinstance(st.value, ast.Call) and self.inline_calls is not None and self._inline_depth < 3:
                    body = self.inline_calls(st.value)
                    if body is not None:
                        self._inline_depth += 1
                        try:
                            live = self._walk(body, live, done)
                        finally:
                            self._inline_depth -= 1
                        continue
                if self.track_calls and isinstance(st.value, ast.Call):
                    for p in live:
                        p.calls.append(st.value)
                continue
            elif isinstance(st, (ast.Continue, ast.Break)):
                # inside an enumerated loop body the iteration (or the loop) ends here
                for p in live:
                    p.ended = 'continue' if isinstance(st, ast.Continue) else 'break'
                    done.append(p)
                live = []
            elif isinstance(st, (ast.Pass, ast.Import, ast.ImportFrom, ast.Global, ast.Nonlocal, ast.FunctionDef,
                                 ast.ClassDef, ast.Assert, ast.Delete)):
                continue
            else:
                raise AnalysisError(f'unsupported statement {type(st).__name__} at line {st.lineno}')
        return live

    def _opaque(self, p: Path, k: str, st: ast.stmt) -> None:
        p.env[k] = Def(k, None, {}, st.lineno, 'opaque', st)
        p.writes.setdefault(k, []).append(st.lineno)

    def _assign(self, st: ast.stmt, p: Path) -> None:
        if isinstance(st, ast.AugAssign):
            k = target_key(st.target)
            if k is None:
                kk = target_key(st.target.value) if isinstance(st.target, ast.Subscript) else None
                if kk and kk in self.relevant:
                    self._opaque(p, kk, st)
                return
            if k not in self.relevant:
                return
            cur = copy.copy(st.target)
            cur.ctx = ast.Load()
            new = ast.BinOp(left=cur, op=st.op, right=st.value)
            ast.copy_location(new, st)
            ast.fix_missing_locations(new)
            b = _binds_for(st.value, p.env)
            if k in p.env:
                b[k] = p.env[k]
            p.env[k] = Def(k, new, b, st.lineno, 'aug', st)
            p.writes.setdefault(k, []).append(st.lineno)
            return
        value = st.value
        if value is None:
            return
        targets = st.targets if isinstance(st, ast.Assign) else [st.target]
        b = None
        for t in targets:
            if isinstance(t, (ast.Tuple, ast.List)):
                for i, e in enumerate(t.elts):
                    k = target_key(e)
                    if k and k in self.relevant:
                        if b is None:
                            b = _binds_for(value, p.env)
                        if isinstance(value, (ast.Tuple, ast.List)) and len(value.elts) == len(t.elts):
                            p.env[k] = Def(k, value.elts[i], b, st.lineno, 'assign', st)
                        else:
                            sub = ast.Subscript(value=value, slice=ast.Constant(value=i), ctx=ast.Load())
                            ast.copy_location(sub, st)
                            ast.fix_missing_locations(sub)
                            p.env[k] = Def(k, sub, b, st.lineno, 'tuple-item', st)
                        p.writes.setdefault(k, []).append(st.lineno)
                continue
            k = target_key(t)
            if k is None:
                if isinstance(t, ast.Subscript):
                    kk = target_key(t.value)
                    if kk and kk in self.relevant:
                        self._opaque(p, kk, st)
                continue
            if k not in self.relevant:
                continue
            if b is None:
                b = _binds_for(value, p.env)
            p.env[k] = Def(k, value, b, st.lineno, 'assign', st)
            p.writes.setdefault(k, []).append(st.lineno)


class _Expand(ast.NodeTransformer):
    def __init__(self, binds: Dict[str, Def], only, depth: int):
        self.binds = binds
        self.only = only
        self.depth = depth

    def _leaf(self, node):
        k = target_key(node)
        if k is not None and isinstance(getattr(node, 'ctx', None), ast.Load) and k in self.binds and self.depth > 0:
            d = self.binds[k]
            if d.expr is not None and (self.only is None or self.only(k)):
                return _Expand(d.binds, self.only, self.depth - 1).visit(clone(d.expr))
        return None

    def visit_Name(self, node):
        r = self._leaf(node)
        return r if r is not None else node

    def visit_Attribute(self, node):
        r = self._leaf(node)
        return r if r is not None else self.generic_visit(node)


def expand(expr: ast.AST, binds: Dict[str, Def], only: Callable[[str], bool] = None, depth: int = 6) -> ast.AST:
    """Substituted copy of a (small) expression: names replaced by their current definitions, bounded depth."""
    return ast.fix_missing_locations(_Expand(binds, only, depth).visit(clone(expr)))


def expand_def(d: Def, only=None, depth: int = 6) -> Optional[ast.AST]:
    if d is None or d.expr is None:
        return None
    return expand(d.expr, d.binds, only, depth)


_LIT_CACHE: Dict[Tuple[int, bool], list] = {}
_NRT_CACHE: Dict[int, Set[str]] = {}
_KEEP: List[ast.AST] = []        # keeps cached nodes alive so that id() stays unique


def _literals(test: ast.AST, pol: bool):
    """Decompose a guard into (atom text, polarity) literals that must all hold (conjunctions only).  Memoised per node."""
    k = (id(test), pol)
    r = _LIT_CACHE.get(k)
    if r is None:
        r = _literals_uncached(test, pol)
        _LIT_CACHE[k] = r
        _KEEP.append(test)
    return r


def _literals_uncached(test: ast.AST, pol: bool):
    if isinstance(test, ast.UnaryOp) and isinstance(test.op, ast.Not):
        return _literals(test.operand, not pol)
    if isinstance(test, ast.BoolOp):
        if (isinstance(test.op, ast.And) and pol) or (isinstance(test.op, ast.Or) and not pol):
            out = []
            for v in test.values:
                out.extend(_literals(v, pol))
            return out
        return []
    if isinstance(test, ast.Compare) and len(test.ops) == 1 and isinstance(test.comparators[0], ast.Constant) \
            and isinstance(test.comparators[0].value, bool) and isinstance(test.ops[0], (ast.Eq, ast.Is, ast.NotEq, ast.IsNot)):
        same = isinstance(test.ops[0], (ast.Eq, ast.Is))
        val = test.comparators[0].value
        return [(norm(test.left), pol if (same == val) else not pol)]
    return [(norm(test), pol)]


def feasible(conds, assigned: Set[str] = frozenset()) -> bool:
    """Syntactic consistency: the same guard text cannot hold with both polarities on one path (only for guards
    over names that are never assigned in the analysed body).  Sound pruning; no arithmetic reasoning."""
    seen: Dict[str, bool] = {}
    for c in conds:
        for txt, pol in _literals(c[0], c[1]):
            if names_read_text(c[0]) & assigned:
                continue
            if txt in seen and seen[txt] != pol:
                return False
            seen[txt] = pol
    return True


def names_read_text(node: ast.AST) -> Set[str]:
    r = _NRT_CACHE.get(id(node))
    if r is None:
        r = set(names_read(node))
        _NRT_CACHE[id(node)] = r
        _KEEP.append(node)
    return r


def cond_text(conds) -> str:
    return ' & '.join(('' if c[1] else 'not ') + '(' + norm(c[0])[:80] + ')' for c in conds) or 'always'
