"""E2: the parameter / output registry the code itself declares, plus the enum tables of
OptionList.py and Units.py -- all read from the AST, nothing imported."""
from __future__ import annotations

import ast
from dataclasses import dataclass, field
from typing import Any, Dict, List, Optional, Tuple

from .srcmodel import AnalysisError, ClassInfo, Repo, dotted_name, norm, parent

PARAM_CTORS = ('floatParameter', 'intParameter', 'boolParameter', 'strParameter', 'listParameter')
OUT_CTOR = 'OutputParameter'


class Unfolded:
    """Marker for an argument expression the folder could not evaluate."""

    def __init__(self, text: str):
        self.text = text

    def __repr__(self):
        return f'<unfolded {self.text}>'

    def __eq__(self, other):
        return isinstance(other, Unfolded) and other.text == self.text

    def __hash__(self):
        return hash(self.text)


@dataclass(frozen=True)
class EnumRef:
    enum: str
    member: str

    def __repr__(self):
        return f'{self.enum}.{self.member}'


@dataclass
class Decl:
    kind: str                      # floatParameter ... OutputParameter
    owner: str                     # class name
    attr: str                      # python attribute (self.<attr>)
    dict_name: Optional[str]       # ParameterDict / OutputParameterDict / None
    key_attr: Optional[str]        # B in self.<Dict>[self.B.Name]
    key_expr: str
    node: ast.Call
    where: str
    args: Dict[str, Any] = field(default_factory=dict)       # folded keyword values
    arg_nodes: Dict[str, ast.AST] = field(default_factory=dict)
    idiom: str = ''

    @property
    def is_input(self) -> bool:
        # a floatParameter registered in OutputParameterDict is an output (Reservoir.resvolcalc, cpwater, ...)
        return self.kind != OUT_CTOR and self.dict_name != 'OutputParameterDict'

    @property
    def name(self) -> Any:
        if 'Name' in self.args:
            return self.args['Name']
        return None

    def get(self, k: str, default=None):
        return self.args.get(k, default)


class EnumTables:
    """Members of every Enum-like class in OptionList.py and Units.py: member -> raw folded tuple/value."""

    def __init__(self, repo: Repo):
        self.enums: Dict[str, Dict[str, Any]] = {}
        self.order: Dict[str, List[str]] = {}
        for suffix in ('geophires_x/OptionList.py', 'geophires_x/Units.py'):
            mi = repo.module(suffix)
            for cname, ci in mi.classes.items():
                members: Dict[str, Any] = {}
                order: List[str] = []
                auto_n = 0
                for st in ci.node.body:
                    if isinstance(st, ast.Assign) and len(st.targets) == 1 and isinstance(st.targets[0], ast.Name):
                        nm = st.targets[0].id
                        if nm.startswith('_'):
                            continue
                        v = st.value
                        if isinstance(v, ast.Call) and dotted_name(v.func) == 'auto':
                            auto_n += 1
                            members[nm] = auto_n
                        else:
                            members[nm] = self._fold(v, cname)
                        order.append(nm)
                if members:
                    self.enums[cname] = members
                    self.order[cname] = order

    def _fold(self, v: ast.AST, cname: str) -> Any:
        if isinstance(v, ast.Constant):
            return v.value
        if isinstance(v, ast.Tuple):
            return tuple(self._fold(e, cname) for e in v.elts)
        if isinstance(v, ast.UnaryOp) and isinstance(v.op, ast.USub):
            x = self._fold(v.operand, cname)
            return -x if isinstance(x, (int, float)) else Unfolded(norm(v))
        if isinstance(v, ast.BinOp):
            a, b = self._fold(v.left, cname), self._fold(v.right, cname)
            if isinstance(a, str) and isinstance(b, str) and isinstance(v.op, ast.Add):
                return a + b
            if isinstance(a, (int, float)) and isinstance(b, (int, float)):
                try:
                    return {ast.Add: a + b, ast.Sub: a - b, ast.Mult: a * b}.get(type(v.op), Unfolded(norm(v)))
                except Exception:
                    pass
        if isinstance(v, ast.Attribute):
            dn = dotted_name(v)
            if dn:
                parts = dn.split('.')
                if len(parts) == 3 and parts[2] == 'value' and parts[0] in self.enums:
                    return self.str_value(parts[0], parts[1])
                if len(parts) == 2 and parts[0] in self.enums:
                    return EnumRef(parts[0], parts[1])
        return Unfolded(norm(v))

    def has(self, enum: str, member: str = None) -> bool:
        return enum in self.enums and (member is None or member in self.enums[enum])

    def int_value(self, enum: str, member: str) -> Optional[int]:
        v = self.enums.get(enum, {}).get(member)
        if isinstance(v, tuple) and v and isinstance(v[0], int):
            return v[0]
        if isinstance(v, int):
            return v
        return None

    def str_value(self, enum: str, member: str) -> Optional[str]:
        v = self.enums.get(enum, {}).get(member)
        if isinstance(v, tuple) and len(v) > 1 and isinstance(v[1], str):
            return v[1]
        if isinstance(v, str):
            return v
        return None

    def members(self, enum: str) -> List[str]:
        return list(self.order.get(enum, []))


class Registry:
    REG_DICTS = ('ParameterDict', 'OutputParameterDict')

    def __init__(self, repo: Repo):
        self.repo = repo
        self.enums = EnumTables(repo)
        self.decls: List[Decl] = []
        self.unresolved: List[str] = []
        self.odd_shapes: List[str] = []
        self.by_owner: Dict[str, List[Decl]] = {}
        for mi in repo.modules.values():
            for ci in mi.classes.values():
                self._scan_class(ci)
        for d in self.decls:
            self.by_owner.setdefault(d.owner, []).append(d)

    # ---------------------------------------------------------------------------- extraction
    def _scan_class(self, ci: ClassInfo) -> None:
        for fn in ci.methods.values():
            local_decls: Dict[str, Decl] = {}
            for node in ast.walk(fn.node):
                if not isinstance(node, ast.Call):
                    continue
                cn = dotted_name(node.func)
                if cn is None:
                    continue
                cn = cn.split('.')[-1]
                if cn not in PARAM_CTORS and cn != OUT_CTOR:
                    continue
                d = self._decl_from_call(ci, fn, node, cn, local_decls)
                if d is not None:
                    self.decls.append(d)
                    local_decls[d.attr] = d

    def _registering_wrapper(self, ci, fn, wrapper: str) -> Optional[str]:
        name = wrapper.split('.')[-1]
        cands = [n for n in ast.walk(fn.node) if isinstance(n, ast.FunctionDef) and n.name == name and n is not fn.node]
        if not cands and name in ci.methods:
            cands = [ci.methods[name].node]
        if not cands and name in ci.module.functions:
            cands = [ci.module.functions[name].node]
        if len(cands) != 1:
            return None
        h = cands[0]
        params = [a.arg for a in h.args.args if a.arg not in ('self', 'cls')]
        rets = [r for r in ast.walk(h) if isinstance(r, ast.Return) and r.value is not None]
        if not params or len(rets) != 1 or not isinstance(rets[0].value, ast.Name) or rets[0].value.id not in params:
            return None
        pn = rets[0].value.id
        for st in ast.walk(h):
            if isinstance(st, ast.Assign) and len(st.targets) == 1 and isinstance(st.targets[0], ast.Subscript) and isinstance(st.value, ast.Name) \
                    and st.value.id == pn and norm(st.targets[0].slice) == f'{pn}.Name':
                dn = dotted_name(st.targets[0].value) or ''
                if dn.startswith('self.') and dn.endswith('Dict'):
                    return dn[len('self.'):]
        return None

    def _decl_from_call(self, ci, fn, call: ast.Call, kind: str, earlier: Dict[str, 'Decl']) -> Optional[Decl]:
        # climb: optional wrapper call (parameter_dict_entry / filepath_parameter), then Assign/AnnAssign
        node: ast.AST = call
        idiom = 'plain'
        p = parent(node)
        wrapper = None
        if isinstance(p, ast.Call) and node in p.args:
            wrapper = dotted_name(p.func)
            node = p
            p = parent(node)
        targets: List[ast.AST] = []
        if isinstance(p, ast.Assign) and p.value is node:
            targets = list(p.targets)
        elif isinstance(p, ast.AnnAssign) and p.value is node:
            targets = [p.target]
        else:
            # e.g. dataclasses.replace / list elements: not a registration idiom
            self.odd_shapes.append(f'{ci.module.rel}:{call.lineno} {kind} not directly assigned ({type(p).__name__})')
            return None
        attr = None
        dict_name = key_attr = None
        key_expr = ''
        for t in targets:
            if isinstance(t, ast.Attribute) and isinstance(t.value, ast.Name) and t.value.id == 'self':
                attr = t.attr
            elif isinstance(t, ast.Subscript):
                dn = dotted_name(t.value)
                if dn and dn.startswith('self.'):
                    dict_name = dn[len('self.'):]
                    key_expr = norm(t.slice)
                    kd = dotted_name(t.slice)
                    if kd and kd.startswith('self.') and kd.endswith('.Name'):
                        key_attr = kd[len('self.'):-len('.Name')]
            elif isinstance(t, ast.Name):
                attr = attr or t.id
        if attr is None:
            self.odd_shapes.append(f'{ci.module.rel}:{call.lineno} {kind} assigned to {norm(targets[0])}')
            return None
        if wrapper:
            idiom = f'wrapper:{wrapper}'
            if wrapper.endswith('parameter_dict_entry') or wrapper.endswith('filepath_parameter'):
                dict_name = 'ParameterDict'
                key_attr = attr          # wrapper registers under param.Name
                key_expr = f'self.{attr}.Name'
            else:
                # any helper (closure of the constructor, method, module function) that stores its argument in a dictionary of the object
                # under the argument's own Name and returns it is a registering wrapper
                reg_dict = self._registering_wrapper(ci, fn, wrapper)
                if reg_dict is not None:
                    dict_name = reg_dict
                    key_attr = attr
                    key_expr = f'self.{attr}.Name'
        elif dict_name:
            idiom = 'chained'
        else:
            idiom = 'bare'
        d = Decl(kind=kind, owner=ci.name, attr=attr, dict_name=dict_name, key_attr=key_attr, key_expr=key_expr,
                 node=call, where=f'{ci.module.rel}:{call.lineno}', idiom=idiom)
        # positional: Name first
        for i, a in enumerate(call.args):
            if i == 0:
                d.arg_nodes['Name'] = a
        for kw in call.keywords:
            if kw.arg:
                d.arg_nodes[kw.arg] = kw.value
        for k, v in d.arg_nodes.items():
            d.args[k] = self.fold(v, earlier, ci, fn.node)
            if isinstance(d.args[k], Unfolded):
                self.unresolved.append(f'{d.where} {ci.name}.{attr}.{k} = {d.args[k].text}')
        return d

    # ---------------------------------------------------------------------------- folding
    def fold(self, v: ast.AST, earlier: Dict[str, Decl] = None, ci: ClassInfo = None, fn_node: ast.AST = None) -> Any:
        earlier = earlier or {}
        if isinstance(v, ast.Constant):
            return v.value
        if isinstance(v, ast.JoinedStr):
            parts = []
            for x in v.values:
                if isinstance(x, ast.Constant):
                    parts.append(str(x.value))
                elif isinstance(x, ast.FormattedValue):
                    y = self.fold(x.value, earlier, ci, fn_node)
                    if isinstance(y, Unfolded):
                        return Unfolded(norm(v))
                    parts.append(str(y))
            return ''.join(parts)
        if isinstance(v, ast.UnaryOp) and isinstance(v.op, (ast.USub, ast.UAdd)):
            x = self.fold(v.operand, earlier, ci, fn_node)
            if isinstance(x, (int, float)) and not isinstance(x, bool):
                return -x if isinstance(v.op, ast.USub) else x
            return Unfolded(norm(v))
        if isinstance(v, ast.BinOp):
            a, b = self.fold(v.left, earlier, ci, fn_node), self.fold(v.right, earlier, ci, fn_node)
            if isinstance(a, str) and isinstance(b, str) and isinstance(v.op, ast.Add):
                return a + b
            num = lambda x: isinstance(x, (int, float)) and not isinstance(x, bool)
            if num(a) and num(b):
                try:
                    if isinstance(v.op, ast.Add):
                        return a + b
                    if isinstance(v.op, ast.Sub):
                        return a - b
                    if isinstance(v.op, ast.Mult):
                        return a * b
                    if isinstance(v.op, ast.Div):
                        return a / b
                    if isinstance(v.op, ast.Pow):
                        return a ** b
                except Exception:
                    pass
            return Unfolded(norm(v))
        if isinstance(v, (ast.List, ast.Tuple)):
            vals = [self.fold(e, earlier, ci, fn_node) for e in v.elts]
            if any(isinstance(x, Unfolded) for x in vals):
                return Unfolded(norm(v))
            return vals
        if isinstance(v, ast.Call):
            fn = dotted_name(v.func)
            if fn == 'list' and len(v.args) == 1:
                inner = self.fold(v.args[0], earlier, ci, fn_node)
                if isinstance(inner, (list, range)):
                    return list(inner)
                if isinstance(inner, dict):
                    return list(inner)
            if fn == 'range':
                vals = [self.fold(a, earlier, ci, fn_node) for a in v.args]
                if all(isinstance(x, int) for x in vals) and 1 <= len(vals) <= 3:
                    return list(range(*vals))
            if fn in ('float', 'int', 'str') and len(v.args) == 1:
                inner = self.fold(v.args[0], earlier, ci, fn_node)
                if not isinstance(inner, Unfolded):
                    try:
                        return {'float': float, 'int': int, 'str': str}[fn](inner)
                    except Exception:
                        pass
            return Unfolded(norm(v))
        if isinstance(v, ast.ListComp):
            # [x.int_value for x in SomeEnum]  /  [x.value for x in SomeEnum]
            if len(v.generators) == 1 and not v.generators[0].ifs:
                g = v.generators[0]
                en = dotted_name(g.iter)
                if en and self.enums.has(en) and isinstance(g.target, ast.Name):
                    tv = g.target.id
                    el = dotted_name(v.elt)
                    if el == f'{tv}.int_value':
                        return [self.enums.int_value(en, m) for m in self.enums.members(en)]
                    if el == f'{tv}.value':
                        return [self.enums.str_value(en, m) for m in self.enums.members(en)]
            return Unfolded(norm(v))
        dn = dotted_name(v)
        if dn:
            parts = dn.split('.')
            if parts[0] in self.enums.enums:
                if len(parts) == 2 and self.enums.has(parts[0], parts[1]):
                    return EnumRef(parts[0], parts[1])
                if len(parts) == 3 and self.enums.has(parts[0], parts[1]):
                    if parts[2] == 'value':
                        sv = self.enums.str_value(parts[0], parts[1])
                        if sv is not None:
                            return sv
                        return self.enums.enums[parts[0]][parts[1]]
                    if parts[2] == 'int_value':
                        return self.enums.int_value(parts[0], parts[1])
                if len(parts) == 1:
                    return EnumRef(parts[0], '')
            if parts[0] == 'self' and len(parts) == 3 and parts[1] in earlier:
                e = earlier[parts[1]]
                if parts[2] in e.args:
                    return e.args[parts[2]]
                defaults = {'Min': -1.8e30, 'Max': 1.8e30}
                if parts[2] == 'value' and 'DefaultValue' in e.args:
                    return e.args['DefaultValue']
                if parts[2] in defaults and e.kind == 'floatParameter':
                    return defaults[parts[2]]
            if len(parts) == 1 and parts[0] in ('True', 'False', 'None'):
                return {'True': True, 'False': False, 'None': None}[parts[0]]
            # function-local single assignment?
            if fn_node is not None and len(parts) == 1:
                defs = [st for st in ast.walk(fn_node) if isinstance(st, ast.Assign) and len(st.targets) == 1
                        and isinstance(st.targets[0], ast.Name) and st.targets[0].id == parts[0]]
                if len(defs) == 1 and defs[0].lineno < v.lineno:
                    return self.fold(defs[0].value, earlier, ci, None)
            # module-level constant?
            if ci is not None and len(parts) == 1:
                for st in ci.module.tree.body:
                    if isinstance(st, ast.Assign) and len(st.targets) == 1 and isinstance(st.targets[0], ast.Name) \
                            and st.targets[0].id == parts[0]:
                        return self.fold(st.value, {}, ci)
        return Unfolded(norm(v))

    # ---------------------------------------------------------------------------- queries
    def class_decls(self, cls_name: str, module_suffix: str = None) -> List[Decl]:
        """Declarations visible on an instance of the class (own + inherited through the MRO)."""
        ci = self.repo.cls(cls_name, module_suffix)
        out: List[Decl] = []
        seen = set()
        for c in self.repo.mro(ci):
            for d in self.by_owner.get(c.name, []):
                if d.node in seen:
                    continue
                # only the declarations that sit in this very class object
                if self._owner_class(d) is c:
                    seen.add(d.node)
                    out.append(d)
        return out

    def _owner_class(self, d: Decl) -> Optional[ClassInfo]:
        for c in self.repo.classes.get(d.owner, []):
            if d.where.startswith(c.module.rel + ':'):
                return c
        return None

    def find(self, owner: str, attr: str) -> Optional[Decl]:
        """Declaration of self.<attr> as seen from class <owner> (searching the MRO)."""
        cands = self.repo.classes.get(owner, [])
        for ci in cands:
            for c in self.repo.mro(ci):
                for d in self.by_owner.get(c.name, []):
                    if d.attr == attr and self._owner_class(d) is c:
                        return d
        return None

    def inputs(self) -> List[Decl]:
        return [d for d in self.decls if d.is_input]

    def outputs(self) -> List[Decl]:
        return [d for d in self.decls if not d.is_input]

    def counts(self) -> Dict[str, int]:
        c: Dict[str, int] = {}
        for d in self.decls:
            c[d.kind] = c.get(d.kind, 0) + 1
        return c


_REG_CACHE: Dict[int, Registry] = {}


def get_registry(repo: Repo) -> Registry:
    r = _REG_CACHE.get(id(repo))
    if r is None:
        r = _REG_CACHE[id(repo)] = Registry(repo)
    return r
