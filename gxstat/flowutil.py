"""E3 helpers: syntax-directed facts about statement lists (termination, guards, dominance)."""
from __future__ import annotations

import ast
from typing import Callable, Dict, Iterator, List, Optional, Sequence, Tuple

from .srcmodel import AnalysisError, dotted_name, norm, parent


def terminates(stmts: Sequence[ast.stmt]) -> bool:
    """True if no path falls off the end of stmts (every path ends in raise/return/continue/break/exit)."""
    for st in stmts:
        if isinstance(st, (ast.Raise, ast.Return, ast.Continue, ast.Break)):
            return True
        if isinstance(st, ast.Expr) and isinstance(st.value, ast.Call):
            d = dotted_name(st.value.func)
            if d in ('sys.exit', 'exit', 'quit', 'os._exit'):
                return True
        if isinstance(st, ast.If):
            if st.orelse and terminates(st.body) and terminates(st.orelse):
                return True
        if isinstance(st, ast.Try):
            body_t = terminates(st.body) or (st.orelse and terminates(st.orelse))
            if st.finalbody and terminates(st.finalbody):
                return True
            if body_t and all(terminates(h.body) for h in st.handlers):
                return True
        if isinstance(st, ast.With):
            if terminates(st.body):
                return True
    return False


def always_raises(stmts: Sequence[ast.stmt]) -> bool:
    """True if every path through stmts ends in a raise (no return/continue/fall-through)."""
    for st in stmts:
        if isinstance(st, ast.Raise):
            return True
        if isinstance(st, (ast.Return, ast.Continue, ast.Break)):
            return False
        if isinstance(st, ast.If):
            if st.orelse and always_raises(st.body) and always_raises(st.orelse):
                return True
            # a branch that returns makes the whole thing not always-raise only if reached; keep scanning
            if _may_leave(st.body) or _may_leave(st.orelse):
                return False
        if isinstance(st, ast.With) and always_raises(st.body):
            return True
    return False


def _may_leave(stmts: Sequence[ast.stmt]) -> bool:
    for st in stmts:
        for n in ast.walk(st):
            if isinstance(n, (ast.Return, ast.Continue, ast.Break)):
                return True
    return False


def guards_of(node: ast.AST, stop: ast.AST = None) -> List[Tuple[ast.AST, bool]]:
    """Enclosing conditions of a node, innermost last: (test, polarity) for If/While/IfExp, up to `stop`."""
    out: List[Tuple[ast.AST, bool]] = []
    cur = node
    p = parent(cur)
    while p is not None and p is not stop:
        if isinstance(p, ast.If):
            if any(cur is s for s in p.body):
                out.append((p.test, True))
            elif any(cur is s for s in p.orelse):
                out.append((p.test, False))
        elif isinstance(p, ast.While):
            if any(cur is s for s in p.body):
                out.append((p.test, True))
        elif isinstance(p, ast.IfExp):
            if cur is p.body:
                out.append((p.test, True))
            elif cur is p.orelse:
                out.append((p.test, False))
        cur = p
        p = parent(cur)
    out.reverse()
    return out


def enclosing_stmt(node: ast.AST) -> ast.stmt:
    cur = node
    while cur is not None and not isinstance(cur, ast.stmt):
        cur = parent(cur)
    return cur


def enclosing_loops(node: ast.AST, stop: ast.AST = None) -> List[ast.AST]:
    out = []
    p = parent(node)
    while p is not None and p is not stop:
        if isinstance(p, (ast.For, ast.While)):
            out.append(p)
        p = parent(p)
    out.reverse()
    return out


def enclosing_try(node: ast.AST, stop: ast.AST = None) -> List[Tuple[ast.Try, str]]:
    """Try statements around node with the part the node sits in ('body','handler','orelse','final')."""
    out = []
    cur = node
    p = parent(cur)
    while p is not None and p is not stop:
        if isinstance(p, ast.Try):
            if any(cur is s for s in p.body):
                out.append((p, 'body'))
            elif any(cur is s for s in p.orelse):
                out.append((p, 'orelse'))
            elif any(cur is s for s in p.finalbody):
                out.append((p, 'final'))
        elif isinstance(p, ast.ExceptHandler):
            gp = parent(p)
            out.append((gp, 'handler'))
            cur = gp
            p = parent(cur)
            continue
        cur = p
        p = parent(cur)
    out.reverse()
    return out


def stmt_order_key(node: ast.AST) -> Tuple[int, int]:
    return (getattr(node, 'lineno', 0), getattr(node, 'col_offset', 0))


def assigned_targets(st: ast.stmt) -> List[ast.AST]:
    if isinstance(st, ast.Assign):
        out = []
        for t in st.targets:
            if isinstance(t, (ast.Tuple, ast.List)):
                out.extend(t.elts)
            else:
                out.append(t)
        return out
    if isinstance(st, (ast.AugAssign, ast.AnnAssign)):
        return [st.target]
    return []


def stores_in(node: ast.AST) -> Iterator[Tuple[ast.stmt, ast.AST]]:
    """All (statement, target) stores below node (Assign/AugAssign/AnnAssign)."""
    for n in ast.walk(node):
        if isinstance(n, (ast.Assign, ast.AugAssign, ast.AnnAssign)):
            for t in assigned_targets(n):
                yield n, t


def handler_catches(h: ast.ExceptHandler, names: Sequence[str]) -> bool:
    """Does the handler catch any of the exception class names (or everything)?"""
    if h.type is None:
        return True
    types = h.type.elts if isinstance(h.type, ast.Tuple) else [h.type]
    for t in types:
        d = dotted_name(t)
        if d is None:
            return True
        last = d.split('.')[-1]
        if last in names or last in ('BaseException',):
            return True
    return False


def handler_reraises(h: ast.ExceptHandler) -> bool:
    """Every path through the handler ends in raise (or a non-zero process exit)."""
    return _ends_raise_or_exit(h.body)


def _ends_raise_or_exit(stmts: Sequence[ast.stmt]) -> bool:
    for st in stmts:
        if isinstance(st, ast.Raise):
            return True
        if isinstance(st, ast.Expr) and isinstance(st.value, ast.Call):
            d = dotted_name(st.value.func)
            if d in ('sys.exit', 'exit', 'quit', 'os._exit'):
                a = st.value.args
                if a and not (isinstance(a[0], ast.Constant) and a[0].value in (0, None)):
                    return True
                return False
        if isinstance(st, (ast.Return, ast.Continue, ast.Break)):
            return False
        if isinstance(st, ast.If) and st.orelse and _ends_raise_or_exit(st.body) and _ends_raise_or_exit(st.orelse):
            return True
    return False
