"""Resolution of attribute-path atoms (self.X.value, model.<role>.X.value) to registry declarations and unit types."""
from __future__ import annotations

import ast
from fractions import Fraction
from typing import Dict, List, Optional, Tuple

from .callgraph import get_callgraph
from .domains import NONE, UNIT_TABLE, UT
from .registry import Decl, EnumRef, get_registry
from .srcmodel import Repo

SELECTORS = ('value', 'Valid', 'Provided', 'CurrentUnits', 'PreferredUnits', 'Min', 'Max', 'Name', 'display_name',
             'DefaultValue', 'UnitType', 'ErrMessage')

# outputs whose declared unit is unreliable on this repository (see DESIGN 2/E5): the unit *inferred* through the
# integrator (power series in MW x hours x 1000 => kWh) is used instead.  One line of reason per row.
INFERRED_UNITS: Dict[str, str] = {
    'NetkWhProduced': 'kWh',            # integrate_time_series_slice(NetElectricityProduced[MW]) * 1000 * hours
    'TotalkWhProduced': 'kWh',          # same integrator on ElectricityProduced
    'HeatkWhProduced': 'kWh',           # declared kW; holds integrator output
    'HeatkWhExtracted': 'kWh',          # declared GW/yr; holds integrator output
    'PumpingkWh': 'kWh',                # declared kW/yr; holds integrator output
    'cooling_kWh_Produced': 'kWh',      # integrator output
    'heat_pump_electricity_kwh_used': 'kWh',   # integrator output
    'annual_heating_demand': 'GWh',     # np.sum(daily MWh) / 1000 (declared GWh/year: consistent)
}


class AtomResolver:
    def __init__(self, repo: Repo, self_class: str = None):
        self.repo = repo
        self.reg = get_registry(repo)
        self.cg = get_callgraph(repo)
        self.self_class = self_class

    def split(self, key: str) -> Tuple[Optional[str], Optional[str], Optional[str]]:
        """key -> (receiver, attr, selector); e.g. model.surfaceplant.NetkWhProduced.value"""
        parts = key.split('.')
        sel = None
        if parts and parts[-1] in SELECTORS:
            sel = parts[-1]
            parts = parts[:-1]
        if len(parts) < 2:
            return None, None, None
        return '.'.join(parts[:-1]), parts[-1], sel

    def decl(self, key: str) -> Optional[Decl]:
        recv, attr, sel = self.split(key)
        if recv is None:
            return None
        if recv == 'self' and self.self_class:
            return self.reg.find(self.self_class, attr)
        last = recv.split('.')[-1]
        if last in self.cg.roles:
            for ci in self.cg.roles[last]:
                d = self.reg.find(ci.name, attr)
                if d is not None:
                    return d
        if recv in ('econ', 'ae', 'hpce', 'e_npv'):
            for cn in ('Economics', 'EconomicsAddOns'):
                d = self.reg.find(cn, attr)
                if d is not None:
                    return d
        return None

    def unit_string(self, d: Decl) -> Optional[str]:
        for k in ('CurrentUnits', 'PreferredUnits'):
            u = d.get(k)
            if isinstance(u, EnumRef):
                raw = self.reg.enums.enums.get(u.enum, {}).get(u.member)
                if isinstance(raw, str):
                    return raw
                return None
        return None

    def unit(self, key: str) -> Optional[UT]:
        recv, attr, sel = self.split(key)
        if attr is None or sel not in (None, 'value'):
            return None
        if attr in INFERRED_UNITS:
            dm, sc = UNIT_TABLE[INFERRED_UNITS[attr]]
            return UT(dm, sc)
        d = self.decl(key)
        if d is None:
            return None
        us = self.unit_string(d)
        if us is None:
            ut = d.get('UnitType')
            if isinstance(ut, EnumRef) and ut.member in ('NONE', 'CHOICE'):
                return UT(NONE, Fraction(1))
            if d.kind in ('intParameter', 'boolParameter'):
                return UT(NONE, Fraction(1))
            return None
        if us not in UNIT_TABLE:
            return None
        dm, sc = UNIT_TABLE[us]
        return UT(dm, sc)
