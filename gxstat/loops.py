"""Affine index ranges: element-wise stores `K[idx] = value` inside `for i in range(...)` loops, read off the AST."""
from __future__ import annotations

import ast
from dataclasses import dataclass, field
from typing import Dict, List, Optional, Tuple

from .algebra import Rat, Translator, Unsupported
from .flowutil import guards_of
from .srcmodel import AnalysisError, dotted_name, norm, parent
from .symflow import target_key


@dataclass
class RangeInfo:
    var: str
    start: Rat
    stop: Rat
    step: Rat
    node: ast.For

    def show(self) -> str:
        return f'{self.var} in [{self.start.show()}, {self.stop.show()})' + ('' if self.step.equals(Rat.const(1)) else f' step {self.step.show()}')


@dataclass
class LoopStore:
    key: str                       # base key of the subscripted target (self.TotalRevenue.value / CashFlow)
    index: ast.AST
    value: ast.AST
    stmt: ast.stmt
    loops: List[RangeInfo]         # enclosing range loops, outermost first
    guards: List[Tuple[ast.AST, bool]]      # guards between the innermost loop and the store
    aug: Optional[ast.operator] = None

    @property
    def line(self) -> int:
        return self.stmt.lineno


def range_of(loop: ast.For, tr: Translator) -> Optional[RangeInfo]:
    it = loop.iter
    if not (isinstance(it, ast.Call) and dotted_name(it.func) == 'range' and isinstance(loop.target, ast.Name)):
        return None
    try:
        # bounds may go through named intermediates of the enclosing blocks (`total = L + C; for i in range(C, total)`)
        from .inline import inline_block_locals
        a = [tr.tr(inline_block_locals(x, loop, keep=(loop.target.id,))) for x in it.args]
    except Unsupported:
        return None
    if len(a) == 1:
        return RangeInfo(loop.target.id, Rat.const(0), a[0], Rat.const(1), loop)
    if len(a) == 2:
        return RangeInfo(loop.target.id, a[0], a[1], Rat.const(1), loop)
    if len(a) == 3:
        return RangeInfo(loop.target.id, a[0], a[1], a[2], loop)
    return None


def loop_stores(fn_node: ast.AST, tr: Translator = None, alias: Dict[str, str] = None) -> List[LoopStore]:
    """All subscript stores in fn_node with their enclosing range loops.  alias maps local names to canonical texts
    inside index/range expressions (e.g. plantlifetime -> L)."""
    tr = tr or Translator()
    out: List[LoopStore] = []
    for st in ast.walk(fn_node):
        if not isinstance(st, (ast.Assign, ast.AugAssign)):
            continue
        targets = st.targets if isinstance(st, ast.Assign) else [st.target]
        for t in targets:
            if not isinstance(t, ast.Subscript):
                continue
            k = target_key(t.value)
            if k is None:
                continue
            loops: List[RangeInfo] = []
            p = parent(st)
            inner = None
            while p is not None and p is not fn_node:
                if isinstance(p, ast.For):
                    ri = range_of(p, tr)
                    if ri is None:
                        loops.append(RangeInfo(norm(p.target), Rat.atom(f'<iter {norm(p.iter)[:40]}>'), Rat.atom('?'), Rat.const(1), p))
                    else:
                        loops.append(ri)
                    if inner is None:
                        inner = p
                p = parent(p)
            loops.reverse()
            g = guards_of(st, inner) if inner is not None else []
            out.append(LoopStore(k, t.slice, st.value, st, loops, g, st.op if isinstance(st, ast.AugAssign) else None))
    out.sort(key=lambda s: s.line)
    return out
