"""Child process of the self-test: run one check against a scratch tree, no evidence written."""
import os
import sys

sys.dont_write_bytecode = True
sys.path.insert(0, os.path.dirname(os.path.dirname(os.path.abspath(__file__))))

from gxstat.runner import run_check  # noqa: E402

if __name__ == '__main__':
    pid, tier, root = sys.argv[1:4]
    sys.exit(run_check(pid, tier, repo_root=root, write_evidence=False))
