"""E6: the report writer as a table of line templates (read from the AST of the PrintOutputs functions).

A template is the flattened argument of one `f.write(...)`: literal text segments and holes.  A hole is a value
expression with its format spec, or a unit expression (X.CurrentUnits.value / X.PreferredUnits.value), or a label
expression resolved through the registry.  Each template carries the guards and loops that enclose it."""
from __future__ import annotations

import ast
import re
import string
from dataclasses import dataclass, field
from typing import Dict, List, Optional, Tuple

from .flowutil import guards_of
from .registry import get_registry
from .srcmodel import AnalysisError, FuncInfo, Repo, calls_in, dotted_name, norm, parent

WRITERS = [('Outputs', 'PrintOutputs', 'geophires_x/Outputs.py'), ('OutputsAddOns', 'PrintOutputs', 'geophires_x/OutputsAddOns.py'),
           ('OutputsS_DAC_GT', 'PrintOutputs', 'geophires_x/OutputsS_DAC_GT.py'), ('SUTRAOutputs', 'PrintOutputs', 'geophires_x/SUTRAOutputs.py'),
           ('AGSOutputs', 'PrintOutputs', 'geophires_x/AGSOutputs.py')]
ALIASES = {'econ': 'model.economics', 'ae': 'model.addeconomics', 'hpce': 'model.economics', 'sdac': 'model.sdacgteconomics'}
WILD = '\x00'


@dataclass
class Seg:
    kind: str                  # lit | value | unit | label
    text: str = ''             # literal text / normalised expression
    node: Optional[ast.AST] = None
    spec: str = ''
    obj: str = ''              # for unit holes: object path; for value holes: primary object path (X of X.value)
    which: str = ''            # CurrentUnits | PreferredUnits


@dataclass
class Template:
    segs: List[Seg]
    call: ast.Call
    fn: FuncInfo
    guards: List[Tuple[ast.AST, bool]]
    loops: List[ast.For]
    aliases: Dict[str, str]

    @property
    def where(self) -> str:
        return f'{self.fn.module.rel}:{self.call.lineno}'

    def text(self, wild: str = WILD) -> str:
        return ''.join(s.text if s.kind in ('lit', 'label') else wild for s in self.segs)

    @property
    def label(self) -> str:
        """Text before the first ':' of the static text (stripped); '' if none."""
        t = self.text()
        head = t.split(WILD)[0]
        if ':' in head:
            return head[:head.rfind(':')].strip()
        return ''

    def values(self) -> List[Seg]:
        return [s for s in self.segs if s.kind == 'value']

    def units(self) -> List[Seg]:
        return [s for s in self.segs if s.kind == 'unit']


def _spec_text(fs: Optional[ast.AST]) -> str:
    if fs is None:
        return ''
    if isinstance(fs, ast.JoinedStr):
        return ''.join(v.value if isinstance(v, ast.Constant) else '{' + norm(v.value) + '}' for v in fs.values)
    return norm(fs)


class Flattener:
    def __init__(self, repo: Repo, fn: FuncInfo, aliases: Dict[str, str], consts: Dict[str, str]):
        self.repo = repo
        self.reg = get_registry(repo)
        self.fn = fn
        self.aliases = aliases
        self.consts = consts
        self.identity_helpers = set()
        for n in ast.walk(fn.node):
            if isinstance(n, ast.FunctionDef) and n is not fn.node and len(n.args.args) == 1:
                a = n.args.args[0].arg
                rets = [r.value for r in ast.walk(n) if isinstance(r, ast.Return) and r.value is not None]
                if rets and all(norm(r) == a or (isinstance(r, ast.Subscript) and norm(r.slice) == f'{a}.Name' and
                                                 norm(r.value).endswith('OutputParameterDict')) for r in rets):
                    self.identity_helpers.add(n.name)
        # local names bound exactly once to an f-string / a unit label: rendered inline (`x = f'{v:10.1f} {u}'; f.write(f'... {x}')`)
        counts: Dict[str, List[ast.AST]] = {}
        for n in ast.walk(fn.node):
            if isinstance(n, ast.Assign) and len(n.targets) == 1 and isinstance(n.targets[0], ast.Name):
                counts.setdefault(n.targets[0].id, []).append(n.value)
            elif isinstance(n, (ast.AugAssign, ast.AnnAssign, ast.For, ast.NamedExpr)):
                for x in ast.walk(n.target):
                    if isinstance(x, ast.Name):
                        counts.setdefault(x.id, []).extend([None, None])
        self.local_strs: Dict[str, ast.AST] = {}
        for k, vs in counts.items():
            if len(vs) == 1 and vs[0] is not None:
                v = vs[0]
                d = dotted_name(v) or ''
                if isinstance(v, ast.JoinedStr) or d.endswith('Units.value') or \
                        (isinstance(v, ast.Call) and (dotted_name(v.func) or '').endswith('_field_label')) or \
                        (isinstance(v, ast.Constant) and isinstance(v.value, str)):
                    self.local_strs[k] = v
        self._inlining: set = set()

    def canon(self, text: str) -> str:
        parts = text.split('.')
        if parts[0] in self.aliases:
            parts = self.aliases[parts[0]].split('.') + parts[1:]
        return '.'.join(parts)

    def strip_identity(self, e: ast.AST) -> ast.AST:
        """o(econ.X) -> econ.X for local identity helpers (return the parameter or its dictionary twin)."""
        if not self.identity_helpers:
            return e
        from .srcmodel import clone
        helpers = self.identity_helpers

        class S(ast.NodeTransformer):
            def visit_Call(self, n):
                self.generic_visit(n)
                if isinstance(n.func, ast.Name) and n.func.id in helpers and len(n.args) == 1:
                    return n.args[0]
                return n
        return ast.fix_missing_locations(S().visit(clone(e)))

    def flat(self, e: ast.AST) -> List[Seg]:
        if isinstance(e, ast.Constant) and isinstance(e.value, str):
            return [Seg('lit', e.value)]
        if isinstance(e, ast.JoinedStr):
            out: List[Seg] = []
            for v in e.values:
                if isinstance(v, ast.Constant):
                    out.append(Seg('lit', str(v.value)))
                else:
                    out.extend(self.hole(v.value, _spec_text(v.format_spec)))
            return out
        if isinstance(e, ast.BinOp) and isinstance(e.op, ast.Add):
            return self.flat(e.left) + self.flat(e.right)
        if isinstance(e, ast.BinOp) and isinstance(e.op, ast.Mult) and isinstance(e.left, ast.Constant) and isinstance(e.left.value, str) \
                and isinstance(e.right, ast.Constant) and isinstance(e.right.value, int):
            return [Seg('lit', e.left.value * e.right.value)]
        if isinstance(e, ast.BinOp) and isinstance(e.op, ast.Mod) and isinstance(e.left, ast.Constant) and isinstance(e.left.value, str):
            return [Seg('lit', re.sub(r'%[-0-9.]*[a-z]', WILD, e.left.value))]
        if isinstance(e, ast.Name):
            if e.id in self.consts:
                return [Seg('lit', self.consts[e.id])]
            return self.hole(e, '')
        if isinstance(e, ast.Call):
            d = dotted_name(e.func)
            if isinstance(e.func, ast.Attribute) and e.func.attr == 'format' and isinstance(e.func.value, ast.Constant) and isinstance(e.func.value.value, str):
                return self.fmt(e.func.value.value, e.args, e.keywords)
            if d == 'str' and len(e.args) == 1:
                return self.hole(e.args[0], '')
            lab = self._label_call(e)
            if lab is not None:
                return lab
            return self.hole(e, '')
        return self.hole(e, '')

    def _label_call(self, e: ast.Call) -> Optional[List[Seg]]:
        d = dotted_name(e.func)
        if d and d.endswith('_field_label') and len(e.args) == 2:
            name = self.fold_str(e.args[0])
            if name is None:
                dd = dotted_name(e.args[0])
                if dd and dd.split('.')[-1] in ('Name', 'display_name'):
                    name = self.resolve_label(self.canon(dd))
            if name is not None and isinstance(e.args[1], ast.Constant):
                w = e.args[1].value
                return [Seg('label', f'{name}:{" " * (w - len(name) - 1)}')]
        return None

    def fold_str(self, n: ast.AST) -> Optional[str]:
        if isinstance(n, ast.Constant) and isinstance(n.value, str):
            return n.value
        d = dotted_name(n)
        if d:
            # class constant, e.g. Outputs.VERTICAL_WELL_DEPTH_OUTPUT_NAME
            parts = d.split('.')
            if len(parts) == 2 and parts[0] in self.repo.classes:
                for ci in self.repo.classes[parts[0]]:
                    for st in ci.node.body:
                        if isinstance(st, ast.Assign) and norm(st.targets[0]) == parts[1] and isinstance(st.value, ast.Constant):
                            return st.value.value
        return None

    def fmt(self, fstr: str, args, keywords) -> List[Seg]:
        out: List[Seg] = []
        auto = 0
        try:
            parsed = list(string.Formatter().parse(fstr))
        except ValueError:
            return [Seg('value', norm(ast.Constant(fstr)), None, '')]
        for lit, fname, spec, conv in parsed:
            if lit:
                out.append(Seg('lit', lit))
            if fname is None:
                continue
            # field names may carry attribute / index access: `{0.value:10.2f}`, `{p.CurrentUnits.value}`, `{0[2]}`
            m_ = re.match(r'^([^.\[]*)(.*)$', fname)
            head, tail = (m_.group(1), m_.group(2)) if m_ else (fname, '')
            if head == '':
                idx = auto
                auto += 1
            elif head.isdigit():
                idx = int(head)
            else:
                idx = None
            node = args[idx] if idx is not None and idx < len(args) else next((k.value for k in keywords if k.arg == head), None)
            if node is not None and tail:
                try:
                    node = ast.parse(f'({norm(node)}){tail}', mode='eval').body
                    for sub in ast.walk(node):
                        pass
                    from .srcmodel import set_parents
                    set_parents(node)
                except Exception:
                    node = None
            if node is None:
                out.append(Seg('value', '?', None, spec or ''))
            else:
                out.extend(self.hole(node, spec or ''))
        return out

    def hole(self, v: ast.AST, spec: str) -> List[Seg]:
        txt = norm(v)
        if isinstance(v, ast.Name) and not spec and v.id in self.consts:
            return [Seg('lit', self.consts[v.id])]
        if isinstance(v, ast.Name) and not spec and v.id in self.local_strs and v.id not in self._inlining:
            self._inlining.add(v.id)
            try:
                return self.flat(self.local_strs[v.id])
            finally:
                self._inlining.discard(v.id)
        d = dotted_name(v)
        if d:
            c = self.canon(d)
            if c.endswith('.CurrentUnits.value') or c.endswith('.PreferredUnits.value'):
                which = c.split('.')[-2]
                return [Seg('unit', c, v, spec, obj=c[:-len('.' + which + '.value')], which=which)]
            if c.endswith('.display_name') or c.endswith('.Name'):
                s = self.resolve_label(c)
                if s is not None:
                    return [Seg('label', s, v, spec, obj=c.rsplit('.', 1)[0])]
        if isinstance(v, ast.Call) and dotted_name(v.func) == 'str' and len(v.args) == 1:
            return self.hole(v.args[0], spec)
        if isinstance(v, ast.Call) and not spec:
            lab = self._label_call(v)
            if lab is not None:
                return lab
        if isinstance(v, ast.IfExp):
            # conditional hole: both arms are possible renderings; keep as one value hole on the numeric arm
            pass
        return [Seg('value', self.canon_expr(v), v, spec, obj=self.primary_obj(v))]

    def canon_expr(self, v: ast.AST) -> str:
        t = norm(v)
        for a, full in self.aliases.items():
            t = re.sub(rf'(?<![\w.]){re.escape(a)}\.', full + '.', t)
        return t

    def primary_obj(self, v: ast.AST) -> str:
        """Object path X of the first `X.value` occurring in the hole expression."""
        best = ''
        for n in ast.walk(v):
            if isinstance(n, ast.Attribute) and n.attr == 'value':
                d = dotted_name(n)
                if d:
                    c = self.canon(d)
                    if c.count('.') >= 1 and not c.endswith('Units.value'):
                        cand = c[:-len('.value')]
                        if len(cand) > len(best) or not best:
                            best = cand
        return best

    def resolve_label(self, c: str) -> Optional[str]:
        from .atoms import AtomResolver
        parts = c.split('.')
        sel = parts[-1]
        key = '.'.join(parts[:-1]) + '.value'
        cls = self.fn.cls.name if self.fn.cls is not None else None
        d = AtomResolver(self.repo, cls).decl(key)
        if d is None:
            return None
        if sel == 'Name':
            return d.name if isinstance(d.name, str) else None
        dn = d.get('display_name')
        if isinstance(dn, str):
            return dn
        return d.name if isinstance(d.name, str) else None


def writer_templates(repo: Repo, only: List[str] = None) -> List[Template]:
    out: List[Template] = []
    for cn, meth, suffix in WRITERS:
        if only and cn not in only:
            continue
        if not repo.has_module(suffix):
            continue
        fn = repo.method(cn, meth, suffix)
        aliases = dict()
        consts = {'NL': '\n'}
        for st in ast.walk(fn.node):
            if isinstance(st, ast.AnnAssign) and isinstance(st.target, ast.Name) and st.value is not None:
                v = dotted_name(st.value)
                if v and v.startswith('model.') and v.count('.') in (1, 2):
                    aliases[st.target.id] = v
            if isinstance(st, ast.Assign) and len(st.targets) == 1 and isinstance(st.targets[0], ast.Name):
                v = dotted_name(st.value)
                if v and v.startswith('model.') and v.count('.') in (1, 2):
                    aliases[st.targets[0].id] = v
                if isinstance(st.value, ast.Constant) and isinstance(st.value.value, str) and st.targets[0].id.isupper():
                    consts[st.targets[0].id] = st.value.value
        for st in fn.module.tree.body:
            if isinstance(st, ast.Assign) and isinstance(st.targets[0], ast.Name) and isinstance(st.value, ast.Constant) and isinstance(st.value.value, str):
                consts.setdefault(st.targets[0].id, st.value.value)
        fl = Flattener(repo, fn, aliases, consts)
        # the report file handle: whatever name `with open(...) as <name>` binds in this writer (falls back to `f`)
        handles = {it.optional_vars.id for w in ast.walk(fn.node) if isinstance(w, ast.With) for it in w.items
                   if isinstance(it.optional_vars, ast.Name) and isinstance(it.context_expr, ast.Call) and
                   (dotted_name(it.context_expr.func) or '').split('.')[-1] == 'open'} or {'f'}
        for c in calls_in(fn.node):
            if isinstance(c.func, ast.Attribute) and c.func.attr == 'write' and isinstance(c.func.value, ast.Name) and c.func.value.id in handles and len(c.args) == 1:
                segs = fl.flat(fl.strip_identity(c.args[0]))
                merged: List[Seg] = []
                for s in segs:
                    if merged and s.kind == 'lit' and merged[-1].kind == 'lit':
                        merged[-1] = Seg('lit', merged[-1].text + s.text)
                    else:
                        merged.append(s)
                loops = []
                p = parent(c)
                while p is not None and p is not fn.node:
                    if isinstance(p, ast.For):
                        loops.append(p)
                    p = parent(p)
                loops.reverse()
                out.append(Template(merged, c, fn, guards_of(c, fn.node), loops, aliases))
    return out


def exclusive(a: Template, b: Template) -> bool:
    """Syntactically mutually exclusive: the two writes sit in different arms of one if/elif/else statement."""
    if a.fn is not b.fn:
        return False
    ga = {id(t): pol for t, pol in a.guards}
    for t, pol in b.guards:
        if id(t) in ga and ga[id(t)] != pol:
            return True
    # elif chains: test nodes differ but one sits in the orelse of the other's If
    def chain(tpl):
        out = []
        p = parent(tpl.call)
        cur = tpl.call
        while p is not None and p is not tpl.fn.node:
            if isinstance(p, ast.If):
                out.append((p, any(cur is s or any(x is cur for x in ast.walk(s)) for s in p.body)))
            cur = p
            p = parent(p)
        return out
    ca, cb = chain(a), chain(b)
    for ia, in_body_a in ca:
        for ib, in_body_b in cb:
            if ia is ib and in_body_a != in_body_b:
                return True
    return False
