"""Static reading of GeophiresXResult._RESULT_FIELDS_BY_CATEGORY (category -> [(field name, kind)])."""
from __future__ import annotations

import ast
from typing import Dict, List, Tuple

from .srcmodel import AnalysisError, Repo, dotted_name, norm


def result_fields(repo: Repo) -> Dict[str, List[Tuple[str, str]]]:
    ci = repo.cls('GeophiresXResult')
    table = None
    for st in ci.node.body:
        if isinstance(st, ast.Assign) and norm(st.targets[0]) == '_RESULT_FIELDS_BY_CATEGORY':
            table = st.value
    if table is None:
        raise AnalysisError('GeophiresXResult._RESULT_FIELDS_BY_CATEGORY not found')
    if isinstance(table, ast.Call) and table.args:
        table = table.args[0]
    if not isinstance(table, ast.Dict):
        raise AnalysisError('_RESULT_FIELDS_BY_CATEGORY is not a dict literal')
    out: Dict[str, List[Tuple[str, str]]] = {}
    for k, v in zip(table.keys, table.values):
        if not (isinstance(k, ast.Constant) and isinstance(k.value, str) and isinstance(v, (ast.List, ast.Tuple))):
            raise AnalysisError(f'unsupported entry in _RESULT_FIELDS_BY_CATEGORY: {norm(k)}')
        fields = []
        for e in v.elts:
            if isinstance(e, ast.Constant) and isinstance(e.value, str):
                fields.append((e.value, 'number'))
            elif isinstance(e, ast.Call) and e.args and isinstance(e.args[0], ast.Constant):
                kind = {'_StringValueField': 'string', '_EqualSignDelimitedField': 'equal-sign'}.get(dotted_name(e.func), 'other')
                fields.append((e.args[0].value, kind))
            else:
                raise AnalysisError(f'unsupported field in category {k.value}: {norm(e)}')
        out[k.value] = fields
    return out
