"""Three-valued evaluation of guards that only compare option attributes against enum members (finite domains)."""
from __future__ import annotations

import ast
from typing import Dict, Optional, Tuple

from .srcmodel import dotted_name, norm


def _suffix(key: str) -> str:
    return '.'.join(key.split('.')[-2:])


def _member(node: ast.AST) -> Optional[Tuple[str, str]]:
    d = dotted_name(node)
    if d and len(d.split('.')) == 2 and d.split('.')[0][:1].isupper():
        a, b = d.split('.')
        return a, b
    return None


# module-level constant collections of enum members with a tree-unique name (`_COGEN_OPTIONS = [EndUseOptions.A, ...]`); set by the runner
ENUM_LIST_CONSTANTS: Dict[str, ast.AST] = {}


def _member_collection(rhs: ast.AST):
    if isinstance(rhs, ast.Name) and rhs.id in ENUM_LIST_CONSTANTS:
        rhs = ENUM_LIST_CONSTANTS[rhs.id]
    if isinstance(rhs, ast.Call) and isinstance(rhs.func, ast.Name) and rhs.func.id in ('frozenset', 'set', 'tuple', 'list') \
            and len(rhs.args) == 1 and not rhs.keywords:
        rhs = rhs.args[0]
    return rhs if isinstance(rhs, (ast.List, ast.Tuple, ast.Set)) else None


def eval_enum_cond(test: ast.AST, assign: Dict[str, Tuple[str, str]]) -> Optional[bool]:
    """assign: attribute suffix ('econmodel.value') -> (Enum, MEMBER).  None = not decidable from the assignment."""
    if isinstance(test, ast.BoolOp):
        vals = [eval_enum_cond(v, assign) for v in test.values]
        if isinstance(test.op, ast.And):
            if any(v is False for v in vals):
                return False
            return True if all(v is True for v in vals) else None
        if any(v is True for v in vals):
            return True
        return False if all(v is False for v in vals) else None
    if isinstance(test, ast.Constant) and isinstance(test.value, bool):
        return test.value
    if isinstance(test, ast.UnaryOp) and isinstance(test.op, ast.Not):
        v = eval_enum_cond(test.operand, assign)
        return None if v is None else (not v)
    if isinstance(test, ast.Compare) and len(test.ops) == 1:
        lk = dotted_name(test.left)
        if lk is None:
            return None
        cur = assign.get(_suffix(lk))
        if cur is None:
            return None
        op, rhs = test.ops[0], test.comparators[0]
        if isinstance(op, (ast.Eq, ast.NotEq, ast.Is, ast.IsNot)):
            m = _member(rhs)
            if m is None or m[0] != cur[0]:
                return None
            r = (m == cur)
            return r if isinstance(op, (ast.Eq, ast.Is)) else not r
        rhs = _member_collection(rhs) if isinstance(op, (ast.In, ast.NotIn)) else rhs
        if isinstance(op, (ast.In, ast.NotIn)) and rhs is not None:
            ms = [_member(e) for e in rhs.elts]
            if any(m is None or m[0] != cur[0] for m in ms):
                return None
            r = cur in ms
            return r if isinstance(op, ast.In) else not r
    return None


def conds_hold(conds, assign) -> Optional[bool]:
    """conds: iterable of (test, polarity, ...).  False if any is decidably violated, True if all decidably hold."""
    res = True
    for c in conds:
        v = eval_enum_cond(c[0], assign)
        if v is None and len(c) > 2 and c[2]:
            # the test may go through local aliases (`enduse = model.surfaceplant.enduse_option.value`): expand them with the
            # definitions that were current when the test was taken
            try:
                from .symflow import expand
                v = eval_enum_cond(expand(c[0], c[2], only=lambda k: '.' not in k), assign)
            except Exception:
                v = None
        if v is None:
            res = None if res is not False else False
            continue
        if v != c[1]:
            return False
    return res
