"""Equivalent rewrites in another idiom (kind 'idiom'): the rules may stay silent or say "cannot decide" (exit 2), never VIOLATION."""
PA = 'src/geophires_x/Parameter.py'
E = 'src/geophires_x/Economics.py'
SP = 'src/geophires_x/SurfacePlant.py'
CASES = [
 {'id': 'C07-i1-chained-range-test', 'property': 'C07', 'kind': 'idiom',
  'edits': [{'file': PA, 'count': 2, 'old': "        if (New_val < float(ParamToModify.Min)) or (New_val > float(ParamToModify.Max)):", 'new': "        if not (float(ParamToModify.Min) <= New_val <= float(ParamToModify.Max)):"}]},
 {'id': 'C07-i2-range-test-not-in-spelled-out', 'property': 'C07', 'kind': 'idiom',
  'edits': [{'file': PA, 'old': "        if not (New_val in ParamToModify.AllowableRange):", 'new': "        if New_val not in ParamToModify.AllowableRange:"}]},
 {'id': 'C02-i1-integrator-named-dx', 'property': 'C02', 'kind': 'idiom',
  'edits': [{'file': SP, 'old': "        integral = np.trapz(\n            _slice,\n            dx=1. / dx_steps * 365. * 24.\n        )\n", 'new': "        hours_per_interval = 365. * 24. / dx_steps\n        integral = np.trapz(_slice, dx=hours_per_interval)\n"}]},
 {'id': 'C02-i2-integrator-return-reordered', 'property': 'C02', 'kind': 'idiom',
  'edits': [{'file': SP, 'old': "        return integral * 1000. * utilization_factor\n", 'new': "        return utilization_factor * (integral * 1000.)\n"}]},
 {'id': 'C04-i1-payback-loop-enumerate', 'property': 'C04', 'kind': 'idiom',
  'edits': [{'file': E, 'old': "        for i in range(1, len(self.TotalCummRevenue.value), 1):\n                # find out when the cumm cashflow goes from negative to positive\n                if self.TotalCummRevenue.value[i] > 0 >= self.TotalCummRevenue.value[i - 1]:",
             'new': "        for i in range(1, len(self.TotalCummRevenue.value)):\n                # find out when the cumm cashflow goes from negative to positive\n                if self.TotalCummRevenue.value[i - 1] <= 0 < self.TotalCummRevenue.value[i]:"}]},
 {'id': 'C04-i2-payback-abs-instead-of-fabs', 'property': 'C04', 'kind': 'idiom',
  'edits': [{'file': E, 'old': "                    dFullDiff = self.TotalCummRevenue.value[i] + math.fabs(self.TotalCummRevenue.value[(i - 1)])\n                    dPerc = math.fabs(self.TotalCummRevenue.value[(i - 1)]) / dFullDiff",
             'new': "                    dFullDiff = self.TotalCummRevenue.value[i] + abs(self.TotalCummRevenue.value[i - 1])\n                    dPerc = abs(self.TotalCummRevenue.value[i - 1]) / dFullDiff"}]},
 {'id': 'C03-i1-ccap-sum-via-builtin-sum', 'property': 'C03', 'kind': 'idiom',
  'edits': [{'file': E, 'old': "            self.CCap.value = self.Cexpl.value + self.Cwell.value + self.Cstim.value + self.Cgath.value + self.Cplant.value + self.Cpiping.value + self.dhdistrictcost.value\n",
             'new': "            self.CCap.value = sum([self.Cexpl.value, self.Cwell.value, self.Cstim.value, self.Cgath.value, self.Cplant.value, self.Cpiping.value, self.dhdistrictcost.value])\n"}]},
 {'id': 'C12-i1-read-with-splitlines', 'property': 'C12', 'kind': 'idiom',
  'edits': [{'file': 'src/geophires_x/GeoPHIRESUtils.py', 'old': "                content = f.readlines()\n", 'new': "                content = f.read().splitlines(keepends=True)\n"}]},
 {'id': 'C20-i1-raise-systemexit', 'property': 'C20', 'kind': 'idiom',
  'edits': [{'file': 'src/geophires_x/__main__.py', 'old': "sys.exit(rc)", 'new': "raise SystemExit(rc)"}]},
]
