R = 'src/geophires_x_schema_generator/geophires-request.json'
CASES = [
 {'id': 'C19-m1-delete-schema-property', 'property': 'C19', 'kind': 'mutant', 'expect_rule': 'Y1',
  'edits': [{'file': R, 'old': '    "Reservoir Depth": {', 'new': '    "Reservoir Depth Removed": {'}]},
 {'id': 'C19-m2-change-maximum-in-code', 'property': 'C19', 'kind': 'mutant', 'expect_rule': 'Y2',
  'edits': [{'file': 'src/geophires_x/Reservoir.py', 'old': '            "Reservoir Depth",\n            DefaultValue=3.0,\n            Min=0.1,\n            Max=15,', 'new': '            "Reservoir Depth",\n            DefaultValue=3.0,\n            Min=0.1,\n            Max=12,'}]},
 {'id': 'C19-m3-new-parameter-not-published', 'property': 'C19', 'kind': 'mutant', 'expect_rule': 'Y1',
  'edits': [{'file': 'src/geophires_x/SurfacePlantIndustrialHeat.py', 'old': "        model.logger.info(f'Complete {self.__class__.__name__}: {__name__}')", 'count': 1,
             'new': "        self.new_knob = self.ParameterDict[self.new_knob.Name] = floatParameter('Industrial New Knob', DefaultValue=1.0, Min=0, Max=2)\n        model.logger.info(f'Complete {self.__class__.__name__}: {__name__}')"}]},
 {'id': 'C19-m4-client-field-added', 'property': 'C19', 'kind': 'mutant', 'expect_rule': 'Y4',
  'edits': [{'file': 'src/geophires_x_client/geophires_x_result.py', 'old': "                'Average Net Electricity Production',\n", 'count': 2, 'new': "                'Average Net Electricity Production',\n                'Peak Net Electricity Production',\n"}]},
 {'id': 'C19-m5-default-changed-in-code', 'property': 'C19', 'kind': 'mutant', 'expect_rule': 'Y2',
  'edits': [{'file': 'src/geophires_x/SurfacePlant.py', 'old': '            "Plant Lifetime",\n            DefaultValue=30,', 'new': '            "Plant Lifetime",\n            DefaultValue=25,'}]},
 {'id': 'C19-m6-units-changed', 'property': 'C19', 'kind': 'mutant', 'expect_rule': 'Y2',
  'edits': [{'file': R, 'old': '      "description": "Depth of the reservoir",\n      "type": "number",\n      "units": "kilometer",', 'new': '      "description": "Depth of the reservoir",\n      "type": "number",\n      "units": "meter",'}]},
 {'id': 'C19-m7-hip-min-changed', 'property': 'C19', 'kind': 'mutant', 'expect_rule': 'Y2',
  'edits': [{'file': 'src/hip_ra_x/hip_ra_x.py', 'old': "                'Reservoir Porosity',\n                DefaultValue=18.0,\n                Min=0.0,", 'new': "                'Reservoir Porosity',\n                DefaultValue=18.0,\n                Min=1.0,"}]},
]
