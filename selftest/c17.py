H = 'src/hip_ra_x/hip_ra_x.py'
U = 'src/geophires_x/GeoPHIRESUtils.py'
CASES = [
 {'id': 'C17-m1-per-area-divided-by-thickness', 'property': 'C17', 'kind': 'mutant', 'expect_rule': ['G1', 'G2'],
  'edits': [{'file': H, 'old': "            self.producible_heat_per_unit_area.value = self.reservoir_producible_heat.value / self.reservoir_area.value", 'new': "            self.producible_heat_per_unit_area.value = self.reservoir_producible_heat.value / self.reservoir_thickness.value"}]},
 {'id': 'C17-m2-stored-heat-minus', 'property': 'C17', 'kind': 'mutant', 'expect_rule': 'G2',
  'edits': [{'file': H, 'old': "            self.reservoir_stored_heat.value = self.stored_heat_rock.value + self.stored_heat_fluid.value", 'new': "            self.reservoir_stored_heat.value = self.stored_heat_rock.value - self.stored_heat_fluid.value"}]},
 {'id': 'C17-m3-recoverable-plateau', 'property': 'C17', 'kind': 'mutant', 'expect_rule': 'G3',
  'edits': [{'file': U, 'old': "    HIGH_TEMP_RECOVERABLE_HEAT = 0.66", 'new': "    HIGH_TEMP_RECOVERABLE_HEAT = 1.66"}]},
 {'id': 'C17-m4-depth-from-thickness', 'property': 'C17', 'kind': 'mutant', 'expect_rule': 'G1',
  'edits': [{'file': H, 'old': "                self.reservoir_depth.value = (self.reservoir_temperature.value - 15.0) / 30.0", 'new': "                self.reservoir_depth.value = (self.reservoir_temperature.value - 15.0) / 30.0 + self.reservoir_thickness.value / 2"}]},
 {'id': 'C17-m5-porosity-fraction', 'property': 'C17', 'kind': 'mutant', 'expect_rule': 'G2',
  'edits': [{'file': H, 'old': "            self.volume_rock.value = self.reservoir_volume.value * (1.0 - (self.reservoir_porosity.value / 100.0))", 'new': "            self.volume_rock.value = self.reservoir_volume.value * (1.0 - self.reservoir_porosity.value)"}]},
 {'id': 'C17-m6-rock-heat-nonlinear-in-volume', 'property': 'C17', 'kind': 'mutant', 'expect_rule': 'G1',
  'edits': [{'file': H, 'old': "                self.recoverable_rock_heat.value * self.enthalpy_rock.value * self.mass_rock.value\n", 'new': "                self.recoverable_rock_heat.value * self.enthalpy_rock.value * self.mass_rock.value * self.volume_rock.value / 1e9\n"}]},
 {'id': 'C17-m7-producible-without-efficiency', 'property': 'C17', 'kind': 'mutant', 'expect_rule': 'G3',
  'edits': [{'file': H, 'old': "            producible_lifetime_electricity_kJ = maximum_lifetime_electricity_kJ * conversion_efficiency", 'new': "            producible_lifetime_electricity_kJ = maximum_lifetime_electricity_kJ / conversion_efficiency"}]},
 {'id': 'C17-m8-power-fixed-offset', 'property': 'C17', 'kind': 'mutant', 'expect_rule': 'G1',
  'edits': [{'file': H, 'old': "            maximum_power_kW = maximum_lifetime_electricity_kJ / (self.reservoir_life_cycle.value * 365 * 24 * 3600)", 'new': "            maximum_power_kW = maximum_lifetime_electricity_kJ / (self.reservoir_life_cycle.value * 365 * 24 * 3600) + 1.0"}]},
 {'id': 'C17-t1-reassociate', 'property': 'C17', 'kind': 'twin',
  'edits': [{'file': H, 'old': "            self.volume_rock.value = self.reservoir_volume.value * (1.0 - (self.reservoir_porosity.value / 100.0))", 'new': "            rock_fraction = 1.0 - self.reservoir_porosity.value / 100.0\n            self.volume_rock.value = rock_fraction * self.reservoir_volume.value"}]},
]
