E = 'src/geophires_x/Economics.py'
CASES = [
 {'id': 'C11-m1-dependency-only-price', 'property': 'C11', 'kind': 'mutant', 'expect_rule': ['H1', 'H2'],
  'edits': [{'file': E, 'old': "        # Add in the AnnualLicenseEtc and TaxRelief\n        self.Coam.value = self.Coam.value + self.AnnualLicenseEtc.value - self.TaxRelief.value", 'count': 1,
             'new': "        # Add in the AnnualLicenseEtc and TaxRelief\n        self.Coam.value = self.Coam.value + self.AnnualLicenseEtc.value - self.TaxRelief.value + self.ElecStartPrice.value * 0"}]},
 {'id': 'C11-m2-coam-times-energy', 'property': 'C11', 'kind': 'mutant', 'expect_rule': 'H2',
  'edits': [{'file': E, 'old': "            LCOE = (self.FCR.value * (1 + self.inflrateconstruction.value) * self.CCap.value + self.Coam.value) / \\\n", 'new': "            LCOE = (self.FCR.value * (1 + self.inflrateconstruction.value) * self.CCap.value + self.Coam.value * self.Coam.value) / \\\n"}]},
 {'id': 'C11-m3-control-dependence-on-price', 'property': 'C11', 'kind': 'mutant', 'expect_rule': 'H1',
  'edits': [{'file': E, 'old': "        # Surface Piping Length Costs (M$) #assumed $750k/km\n            self.Cpiping.value = 750 / 1000 * model.surfaceplant.piping_length.value", 'count': 0, 'new': ""}]},
 {'id': 'C11-m4-labor-threshold-on-produced-heat', 'property': 'C11', 'kind': 'mutant', 'expect_rule': 'H3',
  'edits': [{'file': E, 'old': "                if np.max(model.surfaceplant.HeatExtracted.value) < 2.5 * 5.:", 'new': "                if np.max(model.surfaceplant.HeatProduced.value) < 2.5 * 5.:"}]},
 {'id': 'C11-m5-addon-overwrites-series', 'property': 'C11', 'kind': 'mutant', 'expect_rule': 'H4',
  'edits': [{'file': 'src/geophires_x/EconomicsAddOns.py', 'old': "                model.surfaceplant.NetkWhProduced.value[i] = model.surfaceplant.NetkWhProduced.value[i] + self.AddOnElecGainedTotalPerYear.value", 'new': "                model.surfaceplant.NetkWhProduced.value[i] = model.surfaceplant.TotalkWhProduced.value[i] + self.AddOnElecGainedTotalPerYear.value"}]},
 {'id': 'C11-m6-heatproduced-sqrt-efficiency', 'property': 'C11', 'kind': 'mutant', 'expect_rule': 'H3',
  'edits': [{'file': 'src/geophires_x/SurfacePlantIndustrialHeat.py', 'old': "        self.HeatProduced.value = self.HeatExtracted.value * self.enduse_efficiency_factor.value", 'new': "        self.HeatProduced.value = self.HeatExtracted.value * self.enduse_efficiency_factor.value * self.enduse_efficiency_factor.value"}]},
 {'id': 'C11-m7-grant-scaled-by-itc', 'property': 'C11', 'kind': 'mutant', 'expect_rule': 'H4',
  'edits': [{'file': E, 'old': "        self.CCap.value = self.CCap.value + self.FlatLicenseEtc.value - self.OtherIncentives.value - self.TotalGrant.value", 'new': "        self.CCap.value = self.CCap.value + self.FlatLicenseEtc.value - self.OtherIncentives.value - self.TotalGrant.value + 0.01"}]},
 {'id': 'C11-t1-addon-augassign', 'property': 'C11', 'kind': 'twin',
  'edits': [{'file': 'src/geophires_x/EconomicsAddOns.py', 'old': "                model.surfaceplant.NetkWhProduced.value[i] = model.surfaceplant.NetkWhProduced.value[i] + self.AddOnElecGainedTotalPerYear.value", 'new': "                model.surfaceplant.NetkWhProduced.value[i] = self.AddOnElecGainedTotalPerYear.value + model.surfaceplant.NetkWhProduced.value[i]"}]},
]
CASES = [c for c in CASES if c['id'] != 'C11-m3-control-dependence-on-price']
CASES.append({'id': 'C11-m3-control-dependence-on-price', 'property': 'C11', 'kind': 'mutant', 'expect_rule': 'H1',
  'edits': [{'file': E, 'old': "            self.Cpiping.value = 750 / 1000 * model.surfaceplant.piping_length.value\n", 'new': "            if self.ElecStartPrice.value > 0.1:\n                self.Cpiping.value = 750 / 1000 * model.surfaceplant.piping_length.value\n            else:\n                self.Cpiping.value = 0.5 * model.surfaceplant.piping_length.value\n"}]})
