O = 'src/geophires_x/OptionList.py'
E = 'src/geophires_x/Economics.py'
CASES = [
 {'id': 'C18-m1-flip-c1-sign', 'property': 'C18', 'kind': 'mutant', 'expect_rule': 'O1',
  'edits': [{'file': O, 'old': '"vertical small diameter, intermediate2", 0.00804, 455.60507,', 'new': '"vertical small diameter, intermediate2", 0.00804, -455.60507,'}]},
 {'id': 'C18-m2-tdp-plus', 'property': 'C18', 'kind': 'mutant', 'expect_rule': 'O2',
  'edits': [{'file': 'src/geophires_x/TDPReservoir.py', 'old': "        model.reserv.Tresoutput.value = (1 - model.reserv.drawdp.value * model.reserv.timevector.value) * \\", 'new': "        model.reserv.Tresoutput.value = (1 + model.reserv.drawdp.value * model.reserv.timevector.value) * \\"}]},
 {'id': 'C18-m3-lcoe-minus-coam', 'property': 'C18', 'kind': 'mutant', 'expect_rule': 'O3',
  'edits': [{'file': E, 'old': "            LCOE = (self.FCR.value * (1 + self.inflrateconstruction.value) * self.CCap.value + self.Coam.value) / \\\n", 'new': "            LCOE = (self.FCR.value * (1 + self.inflrateconstruction.value) * self.CCap.value - self.Coam.value) / \\\n"}]},
 {'id': 'C18-m4-large-negative-c2', 'property': 'C18', 'kind': 'mutant', 'expect_rule': 'O1',
  'edits': [{'file': O, 'old': '"vertical open-hole, large diameter, ideal", -0.00240, 752.93946,', 'new': '"vertical open-hole, large diameter, ideal", -0.0940, 752.93946,'}]},
 {'id': 'C18-m5-adjustment-divides', 'property': 'C18', 'kind': 'mutant', 'expect_rule': 'O5',
  'edits': [{'file': E, 'old': "    cost_of_one_well = well_cost_adjustment_factor * cost_of_one_well\n", 'new': "    cost_of_one_well = cost_of_one_well / max(well_cost_adjustment_factor, 0.01)\n"}]},
 {'id': 'C18-m6-capex-divides', 'property': 'C18', 'kind': 'mutant', 'expect_rule': 'O3',
  'edits': [{'file': E, 'old': "            LCOE = ((1 + self.inflrateconstruction.value) * self.CCap.value + np.sum(\n                self.Coam.value * discountvector)) / np.sum(", 'new': "            LCOE = ((1 + self.inflrateconstruction.value) / self.CCap.value + np.sum(\n                self.Coam.value * discountvector)) / np.sum("}]},
 {'id': 'C18-m7-maxdepth-wrong-gradient', 'property': 'C18', 'kind': 'mutant', 'expect_rule': 'O6',
  'edits': [{'file': 'src/geophires_x/Reservoir.py', 'old': "                maxdepth = maxdepth + (self.Tmax.value - intersecttemperature[layerindex - 1]) / self.gradient.value[\n                    layerindex]", 'new': "                maxdepth = maxdepth + (self.Tmax.value - intersecttemperature[layerindex - 1]) / self.gradient.value[\n                    layerindex - 1]"}]},
 {'id': 'C18-t1-formula-horner', 'property': 'C18', 'kind': 'twin',
  'edits': [{'file': O, 'old': "        return (self._c2 * meters ** 2 + self._c1 * meters + self._c0) * 1E-6", 'new': "        return ((self._c2 * meters + self._c1) * meters + self._c0) * 1E-6"}]},
 {'id': 'C18-hc1-lateral-length-not-converted', 'property': 'C18', 'kind': 'mutant', 'expect_rule': 'O10',
  'edits': [{'file': 'src/geophires_x/Economics.py', 'old': "                                                                                    model.wellbores.Nonvertical_length.value / 1000.0,", 'new': "                                                                                    model.wellbores.Nonvertical_length.value,"}]},
]
