"""Mutants applied ON TOP OF an adopted behaviour-preserving refactoring (refactors/<id>): the normalisations that make the rules silent
on the refactoring (helper absorption, role lookup, sequential inlining, context-manager desugaring ...) must not make them blind - the
same defect in the refactored spelling is still reported by the expected rule."""
CL = 'src/geophires_x_client/__init__.py'
MC = 'src/geophires_monte_carlo/MC_GeoPHIRES3.py'
E = 'src/geophires_x/Economics.py'
U = 'src/geophires_x/GeoPHIRESUtils.py'
WB = 'src/geophires_x/WellBores.py'
R = 'src/geophires_x/Reservoir.py'
MM = 'src/geophires_x/__main__.py'
CASES = [
 {'id': 'C08-x1-exit-method-forgets-cwd', 'property': 'C08', 'kind': 'mutant', 'expect_rule': 'P1', 'patch': 'refactors/C20-r3/patch.diff',
  'edits': [{'file': CL, 'old': "        os.chdir(self._cwd)\n", 'new': ""}]},
 {'id': 'C08-x2-contextmanager-method-forgets-argv', 'property': 'C08', 'kind': 'mutant', 'expect_rule': 'P1', 'patch': 'refactors/C08-r1/patch.diff',
  'edits': [{'file': CL, 'old': "            sys.argv = self._sys_argv\n", 'new': ""}]},
 {'id': 'C13-x1-draw-helper-without-reseed', 'property': 'C13', 'kind': 'mutant', 'expect_rule': 'M1', 'patch': 'refactors/C13-r1/patch.diff',
  'edits': [{'file': MC, 'old': "    np.random.seed()\n", 'new': ""}]},
 {'id': 'C13-x2-draw-helper-wrong-field', 'property': 'C13', 'kind': 'mutant', 'expect_rule': 'M3', 'patch': 'refactors/C13-r1/patch.diff',
  'edits': [{'file': MC, 'old': "        return np.random.uniform(float(input_value[2]), float(input_value[3]))", 'new': "        return np.random.uniform(float(input_value[2]), float(input_value[2]))"}]},
 {'id': 'C04-x1-extracted-cashflow-helper-running-sum-range', 'property': 'C04', 'kind': 'mutant', 'expect_rule': 'K3', 'patch': 'refactors/C11-r4/patch.diff',
  'edits': [{'file': E, 'old': "        for i in range(1, model.surfaceplant.plant_lifetime.value + model.surfaceplant.construction_years.value, 1):\n            self.TotalCummRevenue.value[i]",
             'new': "        for i in range(model.surfaceplant.construction_years.value, model.surfaceplant.plant_lifetime.value + model.surfaceplant.construction_years.value, 1):\n            self.TotalCummRevenue.value[i]"}]},
 {'id': 'C14-x1-extracted-token-helper-keeps-commas', 'property': 'C14', 'kind': 'mutant', 'expect_rule': 'Q9', 'patch': 'refactors/C14-r2/patch.diff',
  'edits': [{'file': MC, 'old': "    return tokens[0].strip().replace(',', '')", 'new': "    return tokens[0].strip()"}]},
 {'id': 'C20-x1-status-helper-returns-zero', 'property': 'C20', 'kind': 'mutant', 'expect_rule': 'N2', 'patch': 'refactors/C20-r1/patch.diff',
  'edits': [{'file': MM, 'old': "    return 1\n", 'new': "    return 0\n"}]},
 {'id': 'C18-x1-early-return-without-factor', 'property': 'C18', 'kind': 'mutant', 'expect_rule': 'O5', 'patch': 'refactors/C18-r4/patch.diff',
  'edits': [{'file': E, 'old': "    return well_cost_adjustment_factor * well_correlation.calculate_cost_MUSD(depth_m)", 'new': "    return well_correlation.calculate_cost_MUSD(depth_m)"}]},
 {'id': 'C01-x1-aliased-guard-wrong-plant', 'property': 'C01', 'kind': 'mutant', 'expect_rule': 'R1', 'patch': 'refactors/C11-r1/patch.diff',
  'edits': [{'file': E, 'old': "    is_district_heating = is_heat_only and plant_type == PlantType.DISTRICT_HEATING", 'new': "    is_district_heating = is_heat_only and plant_type == PlantType.HEAT_PUMP"}]},
 {'id': 'C12-x1-nested-form-needs-three-fields', 'property': 'C12', 'kind': 'mutant', 'expect_rule': 'L1', 'patch': 'refactors/C08-r3/patch.diff',
  'edits': [{'file': U, 'old': "            if len(elements) >= 2:", 'new': "            if len(elements) >= 3:"}]},
 {'id': 'C15-x1-renamed-predictor-rises', 'property': 'C15', 'kind': 'mutant', 'expect_rule': 'Z3', 'patch': 'refactors/C15-r1/patch.diff',
  'edits': [{'file': WB, 'old': "starting_pressure_kPa - total_decline_kPa", 'new': "starting_pressure_kPa + total_decline_kPa"}]},
 {'id': 'C17-x1-module-constant-plateau-above-one', 'property': 'C17', 'kind': 'mutant', 'expect_rule': 'G3', 'patch': 'refactors/C17-r4/patch.diff',
  'edits': [{'file': U, 'old': "_RECOVERABLE_HEAT_HIGH_TEMP_FRACTION = 0.66", 'new': "_RECOVERABLE_HEAT_HIGH_TEMP_FRACTION = 1.66"}]},
 {'id': 'C05-x1-aliased-gradient-wrong-segment', 'property': 'C05', 'kind': 'mutant', 'expect_rule': 'D2', 'patch': 'refactors/C18-r1/patch.diff',
  'edits': [{'file': R, 'old': "intersecttemperature[layerindex - 1]) / gradients[layerindex]", 'new': "intersecttemperature[layerindex - 1]) / gradients[0]"}]},
 {'id': 'C07-x1-extracted-range-test-open-interval', 'property': 'C07', 'kind': 'mutant', 'expect_rule': 'V2', 'patch': 'refactors/C07-r1/patch.diff',
  'edits': [{'file': 'src/geophires_x/Parameter.py', 'old': "    return (candidate_value < float(param.Min)) or (candidate_value > float(param.Max))", 'new': "    return (candidate_value <= float(param.Min)) or (candidate_value > float(param.Max))"}]},
 {'id': 'C20-x2-json-path-helper-other-directory', 'property': 'C20', 'kind': 'mutant', 'expect_rule': 'N3', 'patch': 'refactors/C08-r2/patch.diff',
  'edits': [{'file': 'src/geophires_x/GEOPHIRESv3.py', 'old': "        return output_arg.replace(output_arg_path.name, f'{output_arg_path.stem}.json')", 'new': "        return Path(original_cwd, f'{output_arg_path.name}.json')"}]},
 {'id': 'C02-x1-closure-integrates-wrong-series', 'property': 'C02', 'kind': 'mutant', 'expect_rule': 'F5', 'patch': 'refactors/C02-u3/patch.diff',
  'edits': [{'file': 'src/geophires_x/SurfacePlantHeatPump.py', 'old': "        self.HeatkWhProduced.value = _annual_kwh(self.HeatProduced.value)", 'new': "        self.HeatkWhProduced.value = _annual_kwh(self.HeatExtracted.value)"}]},
 {'id': 'C01-x2-shared-helper-drops-construction-inflation', 'property': 'C01', 'kind': 'mutant', 'expect_rule': 'R4', 'patch': 'refactors/C01-v2/patch.diff',
  'edits': [{'file': E, 'old': "    NPVcap = np.sum((1 + econ.inflrateconstruction.value) * capital_cost * CRF * discountvector)", 'new': "    NPVcap = np.sum(capital_cost * CRF * discountvector)"}]},
 {'id': 'C07-x2-registering-wrapper-forgets-to-register', 'property': 'C07', 'kind': 'mutant', 'expect_rule': 'V3', 'patch': 'refactors/C16-u3/patch.diff',
  'edits': [{'file': E, 'old': "            self.ParameterDict[declared_parameter.Name] = declared_parameter\n", 'new': "            pass\n"}]},
 {'id': 'C08-x3-module-level-restorer-forgets-cwd', 'property': 'C08', 'kind': 'mutant', 'expect_rule': 'P1', 'patch': 'refactors/C08-v1/patch.diff',
  'edits': [{'file': MM, 'old': "        os.chdir(self._cwd)\n", 'new': ""}]},
 {'id': 'C15-x2-test-then-store-floor-inverted', 'property': 'C15', 'kind': 'mutant', 'expect_rule': 'Z3', 'patch': 'refactors/C15-v1/patch.diff',
  'edits': [{'file': WB, 'old': "        if depleted_pressure_kPa < hydrostatic_kPa:", 'new': "        if depleted_pressure_kPa > hydrostatic_kPa:"}]},
]
